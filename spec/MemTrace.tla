------------------------------ MODULE MemTrace ------------------------------
(* Trace validation for Mem.tla: every line of the ndjson trace recorded from the real m_mem_* calls must be
   a step of Mem's Next with the logged arguments, produce the logged return value / event log (obs) and
   the logged per-block observation (alive, reported size, pointer alignment, content intact).           *)
EXTENDS Mem, Json, IOUtils

VARIABLE l
Tr == ndJsonDeserialize(IOEnv.TRACE)

TInit == Init /\ l = 1

Reset == /\ st' = [b \in Blocks |-> "dead"] /\ refs' = [b \in Blocks |-> 0] /\ held' = [b \in Blocks |-> 0]
         /\ size' = [b \in Blocks |-> 0] /\ dt' = [b \in Blocks |-> FALSE] /\ kid' = [b \in Blocks |-> 0]
         /\ par' = [b \in Blocks |-> 0] /\ obs' = <<0>>

\* n references taken / dropped (not the last one) in one trace line
RefN(b, n) == /\ st[b] = "live" /\ held[b] > 0
              /\ refs' = [refs EXCEPT ![b] = @ + n] /\ held' = [held EXCEPT ![b] = @ + n]
              /\ UNCHANGED <<st, size, dt, kid, par>>
UnrefN(b, n) == /\ st[b] = "live" /\ held[b] > n /\ refs[b] > n
                /\ refs' = [refs EXCEPT ![b] = @ - n] /\ held' = [held EXCEPT ![b] = @ - n]
                /\ UNCHANGED <<st, size, dt, kid, par>>

\* logged observation p[b] = <<alive, size, aligned, intact>>
ProjOK(p) == \A b \in Blocks :
                IF p[b][1] = 1
                  THEN st'[b] = "live" /\ size'[b] = p[b][2] /\ p[b][3] = 1 /\ p[b][4] = 1
                  ELSE st'[b] = "dead"

TNext == /\ l <= Len(Tr)
         /\ l' = l + 1
         /\ LET ev == Tr[l] IN
            IF ev.a = "Reset" THEN Reset
            ELSE /\ CASE ev.a = "New"    -> New(ev.b, ev.s, ev.d = 1, ev.c)
                      [] ev.a = "Ref"    -> Ref(ev.b)
                      [] ev.a = "RefN"   -> RefN(ev.b, ev.s)
                      [] ev.a = "UnrefN" -> UnrefN(ev.b, ev.s)
                      [] ev.a = "Unref"  -> Unref(ev.b)
                      [] ev.a = "Unrefp" -> Unrefp(ev.b)
                      [] ev.a = "SizeOf" -> SizeOf(ev.b)
                      [] ev.a = "NullOp" -> NullOp(ev.k)
                      [] OTHER -> FALSE
                 /\ obs' = ev.obs
                 /\ ProjOK(ev.proj)

TSpec == TInit /\ [][TNext]_<<vars, l>>
Accepted == TLCGet("stats").diameter - 1 = Len(Tr)
=============================================================================
