\* system notifications (C19): module start/stop notifications; set-up = 2 RUNNING modules in a started loop; every lifecycle transition
CONSTANTS
  Mods = {"A", "B"}
  Order <- Order2
  Collide = FALSE
  Hooks <- Hooks_none2
  Flags <- Flags_none
  CtxPersist = TRUE
  Topics = {"t1"}
  Pats = {"MOD_STARTED", "MOD_STOPPED"}
  MaxPay = 1
  Cap = 2
  MaxNest = 1
  Ops = {"CtxDeregister", "DropRef", "Dispatch", "CtxQuit", "ModDeregister", "ModPause", "ModResume", "ModStop", "ModStart", "Subscribe"}
  CbOps = {}
  EvalVals = {TRUE}
  Prios = {"N"}
  BatchSizes = {}
  UnstashNs = {}
  HandlerIds = {}
  Kinds = {}
  Keys = {1}
  BadKeys = {}
  SrcOpts = {}
  EvKinds = {"ps"}
  MaxBatch = 3
  Errnos = {}
  TbVals = {}
  TickVals = {}
  Targets = {"A", "B"}
  SubTargets = {"A", "B"}
  AutoVals = {TRUE, FALSE}
  SubOneshot = {FALSE}
  UdVals = {0}
  Senders = {"A", "B"}
  QuitCodes = {1}
  ForeignOps = {}
  MaxRefs = 1
  MaxHeld = 0
  PoolSize = 16
  Setup = "loop2"
INIT Init
NEXT Next
CHECK_DEADLOCK FALSE
INVARIANTS TypeOK C01_RunningCount C01_NoHandlerUnlessRunning C07_NoCtxNoModules C02_AutoFree C02_CopyAccounting C02_NoMailUnlessActive
