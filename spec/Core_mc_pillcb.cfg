\* poison pill x calls from the handler it interrupts: the recipient stops or pauses itself from the handler run for the messages in front of a pending pill - in a poll batch and in the final flush of a stopping loop; stop hook on the recipient, the sender subscribed to the stop notifications (C01, C08, C19)
CONSTANTS
  Mods = {"A", "B"}
  Order <- Order2
  Collide = FALSE
  Hooks <- Hooks_pillcb
  Flags <- Flags_none
  CtxPersist = TRUE
  Topics = {"t1"}
  Pats = {"MOD_STOPPED"}
  MaxPay = 2
  Cap = 2
  MaxNest = 1
  Ops = {"CtxDeregister", "DropRef", "Dispatch", "CtxQuit", "ModResume", "Tell", "Pill", "Subscribe"}
  CbOps = {"ModStop", "ModPause"}
  EvalVals = {TRUE}
  Prios = {"N"}
  BatchSizes = {}
  UnstashNs = {}
  HandlerIds = {}
  Kinds = {}
  Keys = {1}
  BadKeys = {}
  SrcOpts = {}
  EvKinds = {"ps"}
  MaxBatch = 3
  Errnos = {}
  TbVals = {}
  TickVals = {}
  Targets = {"B"}
  SubTargets = {"A"}
  AutoVals = {TRUE}
  SubOneshot = {FALSE}
  UdVals = {0}
  Senders = {"A"}
  QuitCodes = {1}
  ForeignOps = {}
  MaxRefs = 1
  MaxHeld = 0
  PoolSize = 16
  Setup = "loop2"
INIT Init
NEXT Next
CHECK_DEADLOCK FALSE
INVARIANTS TypeOK C01_RunningCount C01_NoHandlerUnlessRunning C07_NoCtxNoModules C02_AutoFree C02_CopyAccounting C02_NoMailUnlessActive
