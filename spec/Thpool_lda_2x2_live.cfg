\* liveness configuration (fairness, no state constraint): same constants as Thpool_lda_2x2.cfg
CONSTANTS
  N = 2
  Subs = {1}
  TaskOf <- T_1x2
  Follow <- F_none
  Lazy = TRUE
  Detached = TRUE
  WaitAll = TRUE
SPECIFICATION FairSpec
CHECK_DEADLOCK FALSE
PROPERTIES Terminates
