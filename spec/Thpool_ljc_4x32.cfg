\* sampled (TLC simulation mode: too large to enumerate) configuration of Thpool.tla: N=4 Subs={1, 2} TaskOf=T_2x32 Lazy=TRUE Detached=FALSE WaitAll=FALSE
CONSTANTS
  N = 4
  Subs = {1, 2}
  TaskOf <- T_2x32
  Follow <- F_none
  Lazy = TRUE
  Detached = FALSE
  WaitAll = FALSE
INIT Init
NEXT Next
CHECK_DEADLOCK FALSE
INVARIANTS TypeOK Parallelism FreeSemantics NoTouchAfterFree DestroyOK LockHolderSane DeadlockFree
PROPERTIES ExactlyOnce NothingRunsAfterFree
