\* batching x token bucket x descriptor events (C13, C18): the refill timer of a token bucket fires while events are held back by batching or low priority (it must not flush them), descriptor events (registered without an explicit priority) flush at once whatever the batch size
CONSTANTS
  Mods = {"A", "B"}
  Order <- Order2
  Collide = FALSE
  Hooks <- Hooks_none2
  Flags <- Flags_none
  CtxPersist = TRUE
  Topics = {"t1"}
  Pats = {"t1"}
  MaxPay = 2
  Cap = 3
  MaxNest = 0
  Ops = {"CtxDeregister", "DropRef", "Dispatch", "CtxQuit", "Publish", "Subscribe", "SetBatchSize", "SetTokenBucket", "TbTick", "SrcRegister", "FdReady", "FdDrain"}
  CbOps = {}
  EvalVals = {TRUE}
  Prios = {"L", "N"}
  BatchSizes = {2}
  UnstashNs = {}
  HandlerIds = {}
  Kinds = {"fd"}
  Keys = {1}
  BadKeys = {}
  SrcOpts <- Opts_plain
  EvKinds = {"ps", "tb", "fd"}
  MaxBatch = 2
  Errnos = {}
  TbVals <- Tb_vals2
  TickVals = {}
  Targets = {"A"}
  SubTargets = {"A"}
  AutoVals = {TRUE}
  SubOneshot = {FALSE}
  UdVals = {0}
  Senders = {"B"}
  QuitCodes = {1}
  ForeignOps = {}
  MaxRefs = 1
  MaxHeld = 0
  PoolSize = 16
  Setup = "loop2"
INIT Init
NEXT Next
CHECK_DEADLOCK FALSE
INVARIANTS TypeOK C01_RunningCount C01_NoHandlerUnlessRunning C07_NoCtxNoModules C02_AutoFree C02_CopyAccounting C02_NoMailUnlessActive C13_ClearedOnStop C13_HeldBackForAReason C16_NoHighStashed C18_TokensBounded C20_RegisteredOpen
