\* trace validation of the map across table growth: HasDtor=TRUE AllowUpdate=FALSE DupKeys=TRUE
CONSTANTS
  Keys = {}
  Vals <- ValsBig
  DupKeys = TRUE
  AllowUpdate = FALSE
  HasDtor = TRUE
INIT TInit
NEXT TNext
CHECK_DEADLOCK FALSE
INVARIANTS Dictionary DtorOnlyIfConfigured
POSTCONDITION Accepted
