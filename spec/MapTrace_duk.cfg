\* trace validation of the map across table growth: HasDtor=TRUE AllowUpdate=TRUE DupKeys=TRUE
CONSTANTS
  Keys = {}
  Vals <- ValsBig
  DupKeys = TRUE
  AllowUpdate = TRUE
  HasDtor = TRUE
INIT TInit
NEXT TNext
CHECK_DEADLOCK FALSE
INVARIANTS Dictionary DtorOnlyIfConfigured
POSTCONDITION Accepted
