\* trace validation: unbounded sizes, 8 blocks
CONSTANTS
  Blocks = {1, 2, 3, 4, 5, 6, 7, 8}
  Sizes = {0}
  MaxRefs = 1000
INIT TInit
NEXT TNext
CHECK_DEADLOCK FALSE
INVARIANTS AliveIffReferenced RefAccounting StepDiscipline
POSTCONDITION Accepted
