\* trace validation: unbounded sizes, 48 blocks (a random population of 8, a chain of 40)
CONSTANTS
  Blocks = {1, 2, 3, 4, 5, 6, 7, 8, 9, 10, 11, 12, 13, 14, 15, 16, 17, 18, 19, 20, 21, 22, 23, 24, 25, 26, 27, 28, 29, 30, 31, 32, 33, 34, 35, 36, 37, 38, 39, 40, 41, 42, 43, 44, 45, 46, 47, 48}
  Sizes = {0}
  MaxRefs = 100000
INIT TInit
NEXT TNext
CHECK_DEADLOCK FALSE
INVARIANTS AliveIffReferenced RefAccounting StepDiscipline
POSTCONDITION Accepted
