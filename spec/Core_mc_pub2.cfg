\* topics (C02): set-up = 2 RUNNING modules in a started loop; literal and regular-expression subscriptions, publish with and without auto-free, unsubscribe / pause / stop with messages in flight
CONSTANTS
  Mods = {"A", "B"}
  Order <- Order2
  Collide = FALSE
  Hooks <- Hooks_none2
  Flags <- Flags_none
  CtxPersist = TRUE
  Topics = {"t1"}
  Pats = {"t1", "t."}
  MaxPay = 1
  Cap = 2
  MaxNest = 1
  Ops = {"CtxDeregister", "DropRef", "Dispatch", "CtxQuit", "ModPause", "ModResume", "ModStop", "ModDeregister", "Publish", "Subscribe", "Unsubscribe"}
  CbOps = {"ModPause", "Unsubscribe", "Publish"}
  EvalVals = {TRUE}
  Prios = {"N"}
  BatchSizes = {}
  UnstashNs = {}
  HandlerIds = {}
  Kinds = {}
  Keys = {1}
  BadKeys = {}
  SrcOpts = {}
  EvKinds = {"ps"}
  MaxBatch = 3
  Errnos = {}
  TbVals = {}
  TickVals = {}
  Targets = {"A", "B"}
  SubTargets = {"A", "B"}
  AutoVals = {TRUE, FALSE}
  SubOneshot = {FALSE}
  UdVals = {0}
  Senders = {"A", "B"}
  QuitCodes = {0, 1}
  ForeignOps = {}
  MaxRefs = 1
  MaxHeld = 0
  PoolSize = 16
  Setup = "loop2"
INIT Init
NEXT Next
CHECK_DEADLOCK FALSE
INVARIANTS TypeOK C01_RunningCount C01_NoHandlerUnlessRunning C07_NoCtxNoModules C02_AutoFree C02_CopyAccounting C02_NoMailUnlessActive
