\* bounded exhaustive configuration of MapAbs.tla: HasDtor=FALSE AllowUpdate=FALSE DupKeys=FALSE
CONSTANTS
  Keys = {"a", "b", "c"}
  Vals = {1, 2, 3}
  DupKeys = FALSE
  AllowUpdate = FALSE
  HasDtor = FALSE
INIT Init
NEXT Next
CHECK_DEADLOCK FALSE
INVARIANTS TypeOK Dictionary DtorOnlyIfConfigured
PROPERTIES DtorDiscipline RefusedPutNoEffect
