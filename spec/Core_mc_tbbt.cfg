\* batch timeout x token bucket (C13, C18): the timeout set, changed and removed with 0, 1, 2 tokens left (refused as a whole without the tokens for its two internal timer operations), timeout and refill timers expiring with events held back
CONSTANTS
  Mods = {"A", "B"}
  Order <- Order2
  Collide = FALSE
  Hooks <- Hooks_none2
  Flags <- Flags_none
  CtxPersist = TRUE
  Topics = {"t1"}
  Pats = {}
  MaxPay = 2
  Cap = 2
  MaxNest = 1
  Ops = {"CtxDeregister", "DropRef", "Dispatch", "CtxQuit", "SetBatchTimeout", "BtFire", "Tell", "SetTokenBucket", "TbTick", "Become"}
  CbOps = {}
  EvalVals = {TRUE}
  Prios = {"N"}
  BatchSizes = {}
  UnstashNs = {}
  HandlerIds = {1}
  Kinds = {}
  Keys = {1}
  BadKeys = {}
  SrcOpts <- Opts_plain
  EvKinds = {"ps", "bt", "tb"}
  MaxBatch = 2
  Errnos = {}
  TbVals <- Tb_vals
  TickVals = {}
  Targets = {"A"}
  SubTargets = {"A"}
  AutoVals = {TRUE}
  SubOneshot = {FALSE}
  UdVals = {0}
  Senders = {"B"}
  QuitCodes = {1}
  ForeignOps = {}
  MaxRefs = 1
  MaxHeld = 0
  PoolSize = 16
  Setup = "loop2"
INIT Init
NEXT Next
CHECK_DEADLOCK FALSE
INVARIANTS TypeOK C01_RunningCount C01_NoHandlerUnlessRunning C07_NoCtxNoModules C02_AutoFree C02_CopyAccounting C02_NoMailUnlessActive C13_ClearedOnStop C09_KeyedSet C09_DroppedOnStop C20_RegisteredOpen C18_TokensBounded C18_TokensBounded
PROPERTIES C18_Accounting
