\* bounded exhaustive configuration of Thpool.tla: N=2 Subs={1} TaskOf=T_1x2 Lazy=TRUE Detached=FALSE WaitAll=FALSE
CONSTANTS
  N = 2
  Subs = {1}
  TaskOf <- T_1x2
  Follow <- F_none
  Lazy = TRUE
  Detached = FALSE
  WaitAll = FALSE
INIT Init
NEXT Next
CHECK_DEADLOCK FALSE
INVARIANTS TypeOK Parallelism FreeSemantics NoTouchAfterFree DestroyOK LockHolderSane DeadlockFree
PROPERTIES ExactlyOnce NothingRunsAfterFree
