\* stashed events keep their content (C16): a message received through a subscription carries that subscription's userdata; the same pattern is subscribed again with another userdata pointer between stash and unstash: the stashed event shows the userdata it was delivered with, messages delivered later the new one
CONSTANTS
  Mods = {"A", "B"}
  Order <- Order2
  Collide = FALSE
  Hooks <- Hooks_none2
  Flags <- Flags_none
  CtxPersist = TRUE
  Topics = {"t1"}
  Pats = {"t1"}
  MaxPay = 2
  Cap = 2
  MaxNest = 1
  Ops = {"CtxDeregister", "DropRef", "Dispatch", "CtxQuit", "Publish", "Subscribe", "Unstash"}
  CbOps = {"Stash", "Unstash"}
  EvalVals = {TRUE}
  Prios = {"N"}
  BatchSizes = {}
  UnstashNs = {1, 2, 9}
  HandlerIds = {}
  Kinds = {}
  Keys = {1}
  BadKeys = {}
  SrcOpts = {}
  EvKinds = {"ps"}
  MaxBatch = 3
  Errnos = {}
  TbVals = {}
  TickVals = {}
  Targets = {"A"}
  SubTargets = {"A"}
  AutoVals = {TRUE, FALSE}
  SubOneshot = {FALSE}
  UdVals = {0, 1}
  Senders = {"B"}
  QuitCodes = {1}
  ForeignOps = {}
  MaxRefs = 1
  MaxHeld = 0
  PoolSize = 16
  Setup = "loop2"
INIT Init
NEXT Next
CHECK_DEADLOCK FALSE
INVARIANTS TypeOK C01_RunningCount C01_NoHandlerUnlessRunning C07_NoCtxNoModules C02_AutoFree C02_CopyAccounting C02_NoMailUnlessActive C13_ClearedOnStop C13_HeldBackForAReason C16_NoHighStashed
