\* liveness configuration (fairness, no state constraint): same constants as Thpool_eja_3x3.cfg
CONSTANTS
  N = 3
  Subs = {1}
  TaskOf <- T_1x3
  Follow <- F_none
  Lazy = FALSE
  Detached = FALSE
  WaitAll = TRUE
SPECIFICATION FairSpec
CHECK_DEADLOCK FALSE
PROPERTIES Terminates
