\* bounded exhaustive configuration of MapAbs.tla: HasDtor=TRUE AllowUpdate=TRUE DupKeys=TRUE
CONSTANTS
  Keys = {"a", "b", "c"}
  Vals = {1, 2, 3}
  DupKeys = TRUE
  AllowUpdate = TRUE
  HasDtor = TRUE
INIT Init
NEXT Next
CHECK_DEADLOCK FALSE
INVARIANTS TypeOK Dictionary DtorOnlyIfConfigured
PROPERTIES DtorDiscipline RefusedPutNoEffect
