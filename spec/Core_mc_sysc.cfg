\* system notifications (C19): loop started/stopped notifications, 2 modules
CONSTANTS
  Mods = {"A", "B"}
  Order <- Order2
  Collide = FALSE
  Hooks <- Hooks_none2
  Flags <- Flags_none
  CtxPersist = TRUE
  Topics = {"t1"}
  Pats = {"CTX_STARTED", "CTX_STOPPED"}
  MaxPay = 1
  Cap = 3
  MaxNest = 1
  Ops = {"CtxRegister", "CtxDeregister", "Dispatch", "ModRegister", "ModStart", "DropRef", "CtxQuit", "ModDeregister", "ModPause", "ModResume", "ModStop", "Subscribe", "Unsubscribe"}
  CbOps = {"ModStop", "CtxQuit"}
  EvalVals = {TRUE}
  Prios = {"N"}
  BatchSizes = {}
  UnstashNs = {}
  HandlerIds = {}
  Kinds = {}
  Keys = {1}
  BadKeys = {}
  SrcOpts = {}
  EvKinds = {"ps"}
  MaxBatch = 3
  Errnos = {}
  TbVals = {}
  TickVals = {}
  Targets = {"A", "B"}
  SubTargets = {"A", "B"}
  AutoVals = {TRUE, FALSE}
  SubOneshot = {FALSE}
  UdVals = {0}
  Senders = {"A", "B"}
  QuitCodes = {0, 1}
  ForeignOps = {}
  MaxRefs = 1
  MaxHeld = 0
  PoolSize = 16
  Setup = ""
INIT Init
NEXT Next
CHECK_DEADLOCK FALSE
INVARIANTS TypeOK C01_RunningCount C01_NoHandlerUnlessRunning C07_NoCtxNoModules C02_AutoFree C02_CopyAccounting C02_NoMailUnlessActive 
