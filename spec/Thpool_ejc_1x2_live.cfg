\* liveness configuration (fairness, no state constraint): same constants as Thpool_ejc_1x2.cfg
CONSTANTS
  N = 1
  Subs = {1}
  TaskOf <- T_1x2
  Follow <- F_none
  Lazy = FALSE
  Detached = FALSE
  WaitAll = FALSE
SPECIFICATION FairSpec
CHECK_DEADLOCK FALSE
PROPERTIES Terminates
