-------------------------------- MODULE Core --------------------------------
(* libmodule core (Lib/core/{ctx,mod,ps,evts,src}.c): one context on one thread, modules, pub/sub, the loop driven
   through m_ctx_dispatch(), re-entrant callbacks.

   Shape.  The whole library state is one record S.  User-visible steps (= edges of the state graph, = what the
   replay driver executes) are:  a public API call made from the top level or from inside a callback, the return
   of a callback (CbReturn), and environment steps.  Everything the library does between two such points is
   computed by Run(): it executes continuation frames from the control stack S.stack until either the stack is
   empty (the outermost API call returned; S.ret is its return value) or the top frame is a callback frame
   (k = "cb": the library is now inside user code of module .m, callback kind .a, with events .ev).
   Frames mirror the code: start/start2 = start() before/after on_start, stop/stop2, dereg/dereg2, evalpass/evalchk/
   eval2 = m_iterate(evaluate_module), batch/evt2 = recv_events loop, lstop/flush/flush2 = loop_stop, cdereg.

   Mechanism = as coded (with the repairs recorded in KNOWN_FINDINGS.txt).  Monitors at the end.            *)
EXTENDS Integers, Sequences, FiniteSets, TLC

CONSTANTS Mods,        \* module names
          Order,       \* sequence of all module names: order in which the context's module table is visited
          Collide,     \* TRUE: the module names share one bucket of the table, which is then visited in registration order (S.tord)
          Hooks,       \* Hooks[m] \subseteq {"eval", "start", "stop"}
          Flags,       \* Flags[m] = sequence of flag sets (each \subseteq {"REPLACE", "PERSIST", "DENYCTX", "DENYPUB", "DENYSUB"}) that a
                       \* registration under name m may choose from (ModRegister(m, i) uses Flags[m][i])
          CtxPersist,  \* M_CTX_PERSIST
          Topics,      \* user topics that can be published
          Pats,        \* subscription patterns that can be subscribed (literal topics, a regex, system topics)
          MaxPay,      \* payload ids 1..MaxPay (in flight at the same time)
          Cap,         \* mailbox capacity (number of pending message copies per module)
          MaxNest,     \* user calls are offered inside callbacks up to this nesting depth
          Ops,         \* user actions offered at the top level
          CbOps,       \* user actions offered inside callbacks
          EvalVals,    \* values on_eval / on_start may return (subset of BOOLEAN)
          Prios,       \* subscription priorities offered ("L", "N", "H")
          BatchSizes,  \* values offered to m_mod_set_batch_size
          UnstashNs,   \* values offered to m_mod_unstash
          HandlerIds,  \* handlers offered to m_mod_become
          Kinds,       \* source kinds offered to register / deregister: subset of {"fd", "tmr", "sgn", "path", "pid", "task", "thr"}
                       \* (events of "fd", "tmr", "sgn", "path", "pid", "task" sources are delivered; "thr" is covered in the registry only)
          BadKeys,     \* pid keys that name no process: such a source cannot be armed (the registration on a RUNNING module is refused)
          Keys,        \* identifying values per kind (small integers; the driver maps them to descriptors, periods, signals, ...)
          SrcOpts,     \* option records [os |-> oneshot, ac |-> autoclose, pr |-> priority "L" | "N" | "H"] offered at registration
          EvKinds,     \* kinds of poll events that can occur in this configuration: subset of {"ps", "fd", "tmr", "sgn", "path", "pid", "task", "tb", "bt", "tick"}
          MaxBatch,    \* at most this many events in one poll batch
          Errnos,      \* errno values a callback may leave behind (SetErrno)
          TbVals,      \* <<rate, burst>> pairs offered to m_mod_set_tokenbucket (rate 0 = remove the limit)
          TickVals,    \* values offered to m_ctx_set_tick (0 = off, else a period id)
          Targets,     \* modules on which batch / stash / become / state setters / source calls are offered in this configuration
          SubTargets,  \* modules on which subscribe / unsubscribe are offered
          AutoVals,    \* auto-free flag values offered to the send calls
          SubOneshot,  \* one-shot flag values offered to subscribe
          UdVals,      \* userdata versions offered to subscribe (0 / 1: the same pattern subscribed again with another userdata pointer)
          Senders,     \* modules that issue tell / publish / broadcast / pill in this configuration
          QuitCodes,   \* codes passed to m_ctx_quit
          ForeignOps,  \* module calls attempted from a thread that does not own the module's context (C14)
          MaxRefs,     \* references the program may hold on one module object
          MaxHeld,     \* events the program may retain (m_mem_ref) beyond their invocation
          PoolSize,    \* threads of the context's task pool (16 in the library; tasks beyond wait in its queue)
          Setup        \* "" = start from nothing; otherwise the name of a canned set-up the driver performs first (see InitOf)

VARIABLE S
vars == <<S>>

NEG == -1
EEXIST == -17
EAGAIN == -11
EPERMC == -13          \* a permission error (EPERM or EACCES)
NoMod == ""
SysTopics == {"CTX_STARTED", "CTX_STOPPED", "MOD_STARTED", "MOD_STOPPED"}
\* subscription pattern p matches topic t (literal equality, the regular expression "t." matching every user topic, or the
\* regular expression "MOD_ST." matching the two module notifications)
Matches(p, t) == p = t \/ (p = "t." /\ t \in Topics) \/ (p = "MOD_ST." /\ t \in {"MOD_STARTED", "MOD_STOPPED"})

Fr(k, m, a, b) == [k |-> k, m |-> m, a |-> a, b |-> b, ev |-> <<>>, h |-> 0, sm |-> {}]
Push(s, f) == [s EXCEPT !.stack = <<f>> \o s.stack]
Pop(s) == [s EXCEPT !.stack = Tail(s.stack)]
Top(s) == Head(s.stack)
Ret(s, v) == [s EXCEPT !.ret = v]

Registered(s) == {m \in Mods : s.mod[m].reg}        \* present in the context's module table
Active(s, m) == s.mod[m].st \in {"running", "paused"}
\* the context's module table in the order in which an iteration visits it: fixed by the names' hashes, or - for names that
\* share a bucket - the order of registration (an insertion goes to the end of the chain, a removal shifts the rest back)
IdxOf(m) == CHOOSE i \in 1..Len(Order) : Order[i] = m
RegSeq(s) == IF Collide THEN s.tord ELSE SelectSeq(Order, LAMBDA m : m \in Registered(s))
TableAdd(s, m) == IF Collide THEN [s EXCEPT !.tord = Append(@, m)] ELSE s
TableRm(s, m) == IF Collide THEN [s EXCEPT !.tord = SelectSeq(@, LAMBDA x : x # m)] ELSE s

\* old: object of a released context; subs: set of [pat, pr] (priority "L" | "N" | "H"), one per pattern;
\* bq/blen: events held back by batching and the configured batch size; stash; hs: handlers installed with become (top first)
\* src: registered sources, a set of [k, key, os, ac, pr] with at most one element per (k, key)
\* tb: token bucket [rate (0 = no limit), burst, tok]; bt: a batch timeout is configured (internal timer)
\* h: references the program holds on the module object (1 from registration, +1 per m_mem_ref); the object exists while it is
\* registered or referenced
Mod0 == [st |-> "none", reg |-> FALSE, old |-> FALSE, h |-> 0, fl |-> {}, src |-> {}, tb |-> [rate |-> 0, burst |-> 0, tok |-> 0, tmr |-> FALSE], bt |-> FALSE, pipe |-> <<>>, subs |-> {}, bq |-> <<>>, blen |-> 0, stash |-> <<>>, hs |-> <<>>]
NewMod(m, i) == [Mod0 EXCEPT !.st = "idle", !.reg = TRUE, !.h = 1, !.fl = Flags[m][i]]
\* gen: which context of this thread it is: 0 = registered from the top level; a fresh context registered from inside a callback while
\* calls made on behalf of the previous (released) one are still in progress gets the next number, so that those calls know that the
\* context they belong to is gone
Ctx0 == [st |-> "none", quit |-> FALSE, qcode |-> 0, fin |-> FALSE, tick |-> 0, gen |-> 0]
Init0 == [ctx |-> Ctx0,
          run |-> 0,
          mod |-> [m \in Mods |-> Mod0],
          stack |-> <<>>,
          cur |-> NoMod,
          ret |-> 0,
          pay |-> [p \in 1..MaxPay |-> [st |-> "unused", copies |-> 0, auto |-> FALSE]],
          rdy |-> {},                                  \* user descriptors (fd keys) that are readable
          hup |-> {},                                  \* ... whose peer hung up with data pending (readable for ever)
          due |-> {},                                  \* <<module, key>>: timers that expired and were not consumed yet
          ufd |-> [f \in Keys |-> "open"],             \* user descriptors: "open" | "closed" (closed by the library: auto-close)
          held |-> <<>>,                               \* events retained by the program (each keeps its message copy / source alive)
          idue |-> {},                                 \* internal timers that expired: <<m, "tb">>, <<m, "bt">>, <<"", "tick">>
          sigp |-> {},                                 \* signals (keys) raised and not consumed yet: pending for the whole process
          dead |-> {},                                 \* watched processes (keys) that have exited (for good)
          xdue |-> {},                                 \* <<m, "path", key>> a change of the watched path is pending in m's watch descriptor;
                                                       \* <<m, "task", key>> the task has finished and notified, its event was not consumed yet
          tord |-> <<>>,                               \* (Collide only) registered modules in registration order
          tlost |-> {},                                \* <<m, key>>: tasks discarded from the pool queue by a loop stop: they never run, their
                                                       \* sources stay registered (and still count as started when their module pauses / stops)
          tq |-> <<>>,                                 \* <<m, key>>: started tasks waiting in the pool's queue for a free thread
          trun |-> {},                                 \* <<m, key>>: tasks whose thread is executing the user's function
          errno |-> 0]
\* canned set-ups (the driver executes the same public calls before every program and checks it arrived here):
\*  "loop2" / "loop3": context registered, all modules registered, first dispatch done (loop started, modules RUNNING)
Running0(m) == [Mod0 EXCEPT !.st = "running", !.reg = TRUE, !.h = 1, !.fl = Flags[m][1]]
InitOf(x) == IF x = "" THEN Init0
             ELSE [Init0 EXCEPT !.ctx = [Ctx0 EXCEPT !.st = "looping"],
                                !.run = Cardinality(Mods),
                                !.tord = IF Collide THEN Order ELSE <<>>,
                                !.mod = [m \in Mods |-> Running0(m)]]
Init == S = InitOf(Setup)

(* ------------------------------ message copies and payloads ------------------------------ *)
\* a message copy in a mailbox / handed to a handler
\* pr: priority of the subscription that matched at send time ("N" for direct tell / broadcast); ud: that subscription's pattern ("" = none)
\* uv: version of the subscription's userdata the handler gets; bound when the message is taken from the mailbox (the library reads the
\* subscription object then), 0 until then
Msg(p, from, topic, sys) == [p |-> p, from |-> from, topic |-> topic, sys |-> sys, pr |-> "N", ud |-> "", os |-> FALSE, sg |-> 0, uv |-> 0]

HasSrc(s, m, k, key) == \E x \in s.mod[m].src : x.k = k /\ x.key = key
SrcOf(s, m, k, key) == CHOOSE x \in s.mod[m].src : x.k = k /\ x.key = key
\* the event of a descriptor / timer source: no payload, the topic field carries "F<key>" / "T<key>", userdata = the key
SrcEvt(k, key) == [p |-> 0, from |-> k, topic |-> "", sys |-> FALSE, pr |-> "N", ud |-> key, os |-> FALSE, sg |-> 0, uv |-> 0]

\* one copy of payload p disappears (delivered-and-released, discarded, or never written)
Release1(pay, p) ==
    IF p = 0 THEN pay
    ELSE LET c == pay[p].copies - 1 IN
         [pay EXCEPT ![p].copies = c, ![p].st = IF c = 0 /\ pay[p].auto THEN "freed" ELSE pay[p].st]
RECURSIVE ReleaseAll(_, _)
ReleaseAll(pay, ms) == IF ms = <<>> THEN pay ELSE ReleaseAll(Release1(pay, Head(ms).p), Tail(ms))

SubPats(s, r) == {q.pat : q \in s.mod[r].subs}
\* the userdata a message taken from r's mailbox now is handed over with: that of its subscription as it is now (a subscription
\* updated in place since the message was sent shows its new userdata; the configurations that offer several userdata versions
\* never replace or remove a subscription object while messages matched by it are pending)
BindUd(s, r, msg) == IF msg.ud # "" /\ msg.ud \in SubPats(s, r)
                       THEN [msg EXCEPT !.uv = (CHOOSE q \in s.mod[r].subs : q.pat = msg.ud).u] ELSE msg
\* fetch_sub(): the literal subscription if there is one, else the (single) matching regular expression
SubFor(s, r, topic) == IF topic \in SubPats(s, r) THEN CHOOSE q \in s.mod[r].subs : q.pat = topic
                       ELSE CHOOSE q \in s.mod[r].subs : Matches(q.pat, topic)
Subscribers(s, topic) == SelectSeq(RegSeq(s), LAMBDA r : Active(s, r) /\ \E q \in s.mod[r].subs : Matches(q.pat, topic))
\* append a copy to r's mailbox if there is room (a full pipe drops the copy)
RECURSIVE Deliver(_, _, _)
Deliver(s, rs, msg) ==      \* rs: sequence of recipients; a message with a topic is stamped with each recipient's matching subscription
    IF rs = <<>> THEN s
    ELSE LET r == Head(rs)
             m1 == IF msg.topic \in {"", "PILL"} THEN msg
                   ELSE LET q == SubFor(s, r, msg.topic) IN [msg EXCEPT !.pr = q.pr, !.ud = q.pat, !.os = q.os, !.sg = IF q.os THEN q.g ELSE 0]
         IN
         IF Len(s.mod[r].pipe) < Cap
           THEN Deliver([s EXCEPT !.mod[r].pipe = Append(s.mod[r].pipe, m1)], Tail(rs), msg)
           ELSE Deliver([s EXCEPT !.pay = Release1(s.pay, msg.p)], Tail(rs), msg)

AllActive(s) == SelectSeq(RegSeq(s), LAMBDA r : Active(s, r))

\* library-generated notification (never has a payload)
Sys(s, topic, from) == Deliver(s, Subscribers(s, topic), Msg(0, from, topic, TRUE))

\* user send: payload p gets one copy per recipient; with auto-free and nobody eligible it is released at once
Send(s, rs, p, auto, msg) ==
    LET n == Len(rs)
        s1 == [s EXCEPT !.pay[p] = [st |-> IF n = 0 /\ auto THEN "freed" ELSE "live", copies |-> n, auto |-> auto]]
    IN Deliver(s1, rs, msg)

FreePay(s) == {p \in 1..MaxPay : s.pay[p].copies = 0}
MinFree(s) == CHOOSE p \in FreePay(s) : \A q \in FreePay(s) : p <= q

(* ------------------------------ the library's continuation machine ------------------------------ *)
HasHook(m, h) == h \in Hooks[m]
\* .b of a callback frame: was the module RUNNING when the callback was entered (monitor C01: handlers only for RUNNING modules)
CbFrame(s, m, kind, evs) == [k |-> "cb", m |-> m, a |-> kind, b |-> IF s.mod[m].st = "running" THEN 1 ELSE 0, ev |-> evs, h |-> 0, sm |-> {}]
\* a handler invocation goes to the most recently installed handler (0 = the registration-time one); evs are released afterwards
Handler(s, m) == IF s.mod[m].hs = <<>> THEN 0 ELSE Head(s.mod[m].hs)
Invoke(s, m, evs) == [Push(Push(s, [Fr("evt2", m, 0, 0) EXCEPT !.ev = evs]),
                           [k |-> "cb", m |-> m, a |-> "evt", b |-> IF s.mod[m].st = "running" THEN 1 ELSE 0, ev |-> evs, h |-> Handler(s, m), sm |-> {}])
                      EXCEPT !.cur = m]
\* push_evt(): the event joins the module's batch queue; the handler runs with the whole queue when the event is high priority,
\* or normal priority and the queue has reached the batch size; a low priority event never triggers
PushEvt(s, m, msg) ==
    LET q == Append(s.mod[m].bq, msg)
        s1 == [s EXCEPT !.mod[m].bq = q]
    IN IF msg.pr = "L" THEN s1
       ELSE IF msg.pr = "H" \/ Len(q) >= s.mod[m].blen THEN Invoke([s1 EXCEPT !.mod[m].bq = <<>>], m, q)
       ELSE s1
EnterCb(s, m, kind, evs) == [Push(s, CbFrame(s, m, kind, evs)) EXCEPT !.cur = m]

\* the context object is released: module objects still referenced by the program belong to a context that is gone
ReleaseCtx(s) == [s EXCEPT !.ctx = [Ctx0 EXCEPT !.gen = s.ctx.gen], !.run = 0, !.mod = [x \in Mods |-> [s.mod[x] EXCEPT !.old = (s.mod[x].st # "none")]]]

\* reset_module(): what stop() clears
\* descriptors registered with auto-close are closed when their source goes away
\* ("closing": the source is gone but an event / poll-batch entry still references it; the descriptor is closed when that goes)
CloseAc(ufd, srcs) == [f \in Keys |-> IF \E x \in srcs : x.k = "fd" /\ x.key = f /\ x.ac THEN "closing" ELSE ufd[f]]
Holds(s, f) == (\E j \in 1..Len(s.held) : s.held[j].from = "fd" /\ s.held[j].ud = f) \/ \E i \in 1..Len(s.stack) :
                  \/ (s.stack[i].k = "evt2" /\ \E j \in 1..Len(s.stack[i].ev) : s.stack[i].ev[j].from = "fd" /\ s.stack[i].ev[j].ud = f)
                  \/ (s.stack[i].k = "batch" /\ \E j \in 1..Len(s.stack[i].b) : s.stack[i].b[j][2] = "fd" /\ s.stack[i].b[j][3] = f)
Settle(s) == LET u == [f \in Keys |-> IF s.ufd[f] = "closing" /\ ~Holds(s, f) THEN "closed" ELSE s.ufd[f]]
             IN [s EXCEPT !.ufd = u, !.rdy = {f \in s.rdy : u[f] # "closed"}, !.hup = {f \in s.hup : u[f] # "closed"}]
DropDue(due, m) == {d \in due : d[1] # m}
StillPending(s, e) == IF e[2] = "tmr" THEN <<e[1], e[3]>> \in s.due ELSE IF e[2] \in {"path", "task"} THEN e \in s.xdue ELSE TRUE
InBatch(s, m, k, key) == \E i \in 1..Len(s.stack) : s.stack[i].k = "batch" /\ \E j \in 1..Len(s.stack[i].b) : s.stack[i].b[j] = <<m, k, key>>
\* tasks.  A task source registered on a RUNNING module (or present when its module is started / resumed) gets a thread that runs
\* the user's function (trun); when the function returns the thread notifies the loop (xdue) and the event is delivered once
\* (the source is one-shot).  The thread uses its source until it has notified: before a started task's source leaves the poll
\* (module paused, stopped, deregistered) the library waits for the threads of the context (all of them: it tears its pool down).
TaskKeys(s, m) == {x.key : x \in {y \in s.mod[m].src : y.k = "task"}}
InQueue(s) == {s.tq[i] : i \in 1..Len(s.tq)}
Started(s, m) == (\E t \in s.trun \cup InQueue(s) \cup s.tlost : t[1] = m) \/ (\E d \in s.xdue : d[1] = m /\ d[2] = "task")
\* the pool is torn down waiting for all of its tasks: the running ones return, the queued ones run as well
JoinAll(s) == [s EXCEPT !.trun = {}, !.tq = <<>>, !.xdue = @ \cup {<<t[1], "task", t[2]>> : t \in s.trun \cup InQueue(s)}]
\* a task is handed to the pool: a free thread takes it at once, else it waits in the queue
StartTask(s, t) == IF Cardinality(s.trun) < PoolSize THEN [s EXCEPT !.trun = @ \cup {t}] ELSE [s EXCEPT !.tq = Append(@, t)]
RECURSIVE StartTasks(_, _, _)
StartTasks(s, m, keys) == IF keys = {} THEN s
                          ELSE LET k == CHOOSE k \in keys : \A j \in keys : k <= j IN StartTasks(StartTask(s, <<m, k>>), m, keys \ {k})
JoinFor(s, m) == IF Started(s, m) THEN JoinAll(s) ELSE s
ResetMod(s, m) == [s EXCEPT !.pay = ReleaseAll(ReleaseAll(s.pay, s.mod[m].bq), s.mod[m].stash),
                             !.ufd = CloseAc(s.ufd, s.mod[m].src),
                             !.mod[m].src = {}, !.due = DropDue(s.due, m), !.xdue = DropDue(s.xdue, m),
                             !.mod[m].tb = [rate |-> 0, burst |-> 0, tok |-> 0, tmr |-> FALSE], !.mod[m].bt = FALSE,
                             !.mod[m].subs = {}, !.mod[m].bq = <<>>, !.mod[m].blen = 0, !.mod[m].stash = <<>>, !.mod[m].hs = <<>>]

\* token bucket: with a bucket configured (rate # 0) every rate-limited call needs - and takes - one token
Limited(s, m) == s.mod[m].tb.rate # 0
Spend(s, m) == IF Limited(s, m) THEN [s EXCEPT !.mod[m].tb.tok = @ - 1] ELSE s

\* one step of library code for the frame on top of the stack (never called with a "cb" frame on top)
Step(s) ==
    LET f == Top(s)
        m == f.m
        r == Pop(s)
    IN
    CASE f.k = "start" ->        \* start(mod, starting = f.a): pipe, sources armed, RUNNING, counter, on_start
            \* (re)starting registers the mailbox as an internal source, which is a rate-limited call too: without a token the
            \* start fails with EAGAIN and the module stays as it was
            IF f.a /\ Limited(r, m) /\ r.mod[m].tb.tok = 0 THEN Ret(r, EAGAIN) ELSE
            LET r1 == IF f.a THEN Spend(r, m) ELSE r
                s1 == [StartTasks(r1, m, TaskKeys(r, m))                                      \* its sources are armed; task sources are handed to the pool
                          EXCEPT !.mod[m].st = "running", !.run = IF r.mod[m].old THEN r.run ELSE r.run + 1,
                                 !.mod[m].pipe = IF f.a THEN <<>> ELSE r.mod[m].pipe]
            IN IF f.a /\ HasHook(m, "start")
                 THEN EnterCb(Push(s1, Fr("start2", m, TRUE, 0)), m, "start", <<>>)
                 ELSE Push(s1, Fr("start2", m, TRUE, 0))
      [] f.k = "start2" ->       \* after on_start (f.a = its answer)
            IF r.mod[m].st \in {"zombie", "none"} THEN Ret(r, NEG)                  \* deregistered inside on_start
            ELSE IF ~f.a THEN Push(r, Fr("stop", m, TRUE, 0))                         \* refusing start callback: stop right away (result = stop's)
            ELSE Ret(IF r.mod[m].old THEN r ELSE Sys(r, "MOD_STARTED", m), 0)
      [] f.k = "retval" -> Ret(r, f.a)
      [] f.k = "stop" ->         \* stop(mod, stopping = f.a)
            LET discard == IF f.a THEN r.mod[m].pipe ELSE <<>>                     \* unread messages are destroyed on stop
                r0 == JoinFor(r, m)                                                 \* started tasks are waited for before their sources leave the poll
                s1 == [r0 EXCEPT !.pay = ReleaseAll(r.pay, discard),
                                !.mod[m].pipe = IF f.a THEN <<>> ELSE r.mod[m].pipe,
                                !.run = IF r.mod[m].st = "running" /\ ~r.mod[m].old THEN r.run - 1 ELSE r.run,    \* (the counter of its own context)
                                !.due = DropDue(r.due, m),                             \* its timers are disarmed (re-armed from scratch on resume)
                                !.xdue = DropDue(r0.xdue, m),                          \* its watch / notification descriptors are closed: what was pending there is lost
                                !.tlost = DropDue(r0.tlost, m),
                                !.idue = {d \in r.idue : d[1] # m},
                                !.mod[m].st = IF f.a THEN "stopped" ELSE "paused"]
            IN IF ~f.a THEN Ret(IF r.mod[m].old THEN s1 ELSE Sys(s1, "MOD_STOPPED", m), 0)
               ELSE LET s2 == ResetMod(s1, m) IN
                    IF HasHook(m, "stop") THEN EnterCb(Push(s2, Fr("stop2", m, 0, 0)), m, "stop", <<>>)
                                          ELSE Push(s2, Fr("stop2", m, 0, 0))
      [] f.k = "stop2" ->
            IF r.mod[m].st \in {"zombie", "none"} THEN Ret(r, NEG)                  \* deregistered inside on_stop
            ELSE Ret(IF r.mod[m].old THEN r ELSE Sys(r, "MOD_STOPPED", m), 0)            \* (its context was released by its own stop callback: nobody to notify)
      [] f.k = "dereg" ->        \* mod_deregister(&m, from_user = f.a): removed from the table first, then stopped (whatever its state)
            Push(Push(TableRm([r EXCEPT !.mod[m].reg = FALSE], m), Fr("dereg2", m, f.a, 0)), Fr("stop", m, TRUE, 0))
      [] f.k = "dereg2" ->
            \* restarted by its own stop callback: stopped again until it stays stopped, then ZOMBIE
            IF r.mod[m].st \in {"running", "paused"} THEN Push(Push(r, f), Fr("stop", m, TRUE, 0))
            ELSE
            \* from_user: one reference of the program is consumed; the object stays (as a ZOMBIE) while the program holds another
            LET hn == IF f.a THEN r.mod[m].h - 1 ELSE r.mod[m].h
                s1 == [r EXCEPT !.mod[m] = IF hn = 0 THEN Mod0
                                           ELSE [Mod0 EXCEPT !.st = "zombie", !.h = hn, !.old = (r.mod[m].old \/ r.ctx.st = "none")]]
            IN IF f.a /\ s1.ctx.st # "looping" /\ Registered(s1) = {} /\ ~CtxPersist /\ ~(r.mod[m].old /\ s1.ctx.st # "none")
                 THEN IF s1.ctx.st = "none" THEN Ret(s1, 0)                                \* (context already released by a nested call: nothing left to do)
                      ELSE Ret(ReleaseCtx(s1), 0)                                          \* last module gone: context released at once
                 ELSE Ret(s1, 0)
      [] f.k = "evalpass" ->     \* m_iterate(c->modules, evaluate_module): f.b = modules still to visit
            IF f.b = <<>> THEN r
            ELSE LET x == Head(f.b)
                     rest == Push(r, [f EXCEPT !.b = Tail(f.b)])
                     chk == Push(rest, Fr("evalchk", x, Cardinality(Registered(r)), 0))
                 IN IF r.mod[x].st # "idle" THEN rest
                    ELSE IF HasHook(x, "eval") THEN EnterCb(Push(chk, Fr("eval2", x, TRUE, 0)), x, "eval", <<>>)
                    ELSE Push(chk, Fr("start", x, TRUE, 0))
      [] f.k = "eval2" ->        \* after on_eval (f.a = answer)
            IF r.mod[m].st = "idle" /\ f.a THEN Push(r, Fr("start", m, TRUE, 0)) ELSE r
      [] f.k = "evalchk" ->      \* map iteration contract: the table changed under the iteration
            \* the scan goes on over the table as it is now: what is registered behind the current position (also what was registered
            \* there during the callback) is still visited, what was deregistered is not.  (Names sharing a bucket: the chain shifts;
            \* the entries not yet visited keep their order - the configurations with Collide do not register from callbacks.)
            LET after == IF Collide THEN r.stack[1].b
                         ELSE SelectSeq(Order, LAMBDA x : x \in Registered(r) /\ IdxOf(x) > IdxOf(m))
                go == [r EXCEPT !.stack[1].b = after]
            IN
            IF m \notin Registered(r) THEN go                                         \* current entry removed: go on
            ELSE IF Cardinality(Registered(r)) # f.a THEN Pop(r)                      \* another entry added/removed: the pass ends here
            ELSE go
      [] f.k = "lstart" ->       \* loop_start(): LOOPING, evaluation pass, "loop started" notification
            LET s1 == [r EXCEPT !.ctx.st = "looping", !.ctx.quit = FALSE, !.ctx.qcode = 0]
            IN Push(Push(s1, Fr("lstart2", NoMod, 0, 0)), Fr("evalpass", NoMod, 0, RegSeq(s1)))
      [] f.k = "lstart2" -> Ret(Sys(r, "CTX_STARTED", "ctx"), 0)
      [] f.k = "batch" ->        \* recv_events(): f.b = events of this poll batch still to process, f.a = number received so far
            IF f.b = <<>>
              THEN IF f.a > 0 THEN Push(Push(r, Fr("retval", NoMod, f.a, 0)), Fr("evalpass", NoMod, 0, RegSeq(r)))
                              ELSE Ret(r, 0)
            ELSE LET e == Head(f.b)
                     rest == Push(r, [f EXCEPT !.b = Tail(f.b), !.a = f.a + 1])
                 IN \* An event whose module left RUNNING earlier in this same batch (or whose source is gone) is not handed
                    \* over (C03: "only while that module is RUNNING"); it stays pending.
                    LET x == e[1] IN
                    IF e[2] = "tick" THEN Sys([rest EXCEPT !.idue = @ \ {<<"", "tick">>}], "CTX_TICK", "ctx")     \* the context's tick
                    ELSE IF r.mod[x].st # "running" THEN Push(r, [f EXCEPT !.b = Tail(f.b)])
                    ELSE IF e[2] = "tb" THEN                         \* refill: one token, up to the burst
                         [rest EXCEPT !.idue = @ \ {<<x, "tb">>},
                                      !.mod[x].tb.tok = IF r.mod[x].tb.tok < r.mod[x].tb.burst THEN @ + 1 ELSE @]
                    ELSE IF e[2] = "bt" THEN                         \* batch timeout: whatever is pending is handed over
                         LET s1 == [rest EXCEPT !.idue = @ \ {<<x, "bt">>}] IN
                         IF r.mod[x].bq = <<>> THEN s1 ELSE Invoke([s1 EXCEPT !.mod[x].bq = <<>>], x, r.mod[x].bq)
                    ELSE IF e[2] = "ps" THEN
                       \* a module's mailbox: read ONE message
                       IF r.mod[x].pipe = <<>> THEN Push(r, [f EXCEPT !.b = Tail(f.b)])
                       ELSE LET msg == BindUd(r, x, Head(r.mod[x].pipe))
                                s1 == [rest EXCEPT !.mod[x].pipe = Tail(r.mod[x].pipe)]
                            IN IF msg.topic = "PILL"
                                 THEN Push([s1 EXCEPT !.pay = Release1(s1.pay, msg.p)], Fr("stop", x, TRUE, 0))
                                 \* a message that came through a one-shot subscription removes that subscription (found by its own
                                 \* pattern, which for a regular expression differs from the message's topic) - that very subscription
                                 \* object (.g): one that has replaced it since is another subscription and stays
                                 ELSE PushEvt(IF msg.os THEN [s1 EXCEPT !.mod[x].subs = {q \in @ : ~(q.pat = msg.ud /\ q.g = msg.sg)}] ELSE s1, x, msg)
                    \* the source was deregistered earlier in this batch (a source registered since under the same key is another
                    \* source: what was pending in the old one's descriptor went with it)
                    ELSE IF ~HasSrc(r, x, e[2], e[3]) \/ ~StillPending(r, e) THEN Push(r, [f EXCEPT !.b = Tail(f.b)])
                    ELSE LET src == SrcOf(r, x, e[2], e[3])
                             \* a one-shot source fires once and is then no longer registered (an auto-close descriptor is closed
                             \* when its event is released; modelled at once); an expired timer is consumed
                             \* a signal is consumed (for the whole process), a path change / task notification is read; an exited
                             \* process stays exited: its source reports it at every poll unless it was one-shot
                             s1 == [rest EXCEPT !.mod[x].src = IF src.os THEN @ \ {src} ELSE @,
                                                !.due = IF e[2] = "tmr" THEN @ \ {<<x, e[3]>>} ELSE @,
                                                !.sigp = IF e[2] = "sgn" THEN @ \ {e[3]} ELSE @,
                                                !.xdue = @ \ {<<x, e[2], e[3]>>}]
                             ev == [SrcEvt(e[2], e[3]) EXCEPT !.pr = IF e[2] = "fd" THEN "H" ELSE src.pr]
                         IN PushEvt(s1, x, ev)
      [] f.k = "evt2" ->         \* after the handler: the events of that invocation are released
            [r EXCEPT !.pay = ReleaseAll(r.pay, f.ev)]
      [] f.k = "lstop" ->        \* loop_stop(): IDLE, "loop stopped" notification, flush of every mailbox
            LET s1 == Sys([r EXCEPT !.ctx.st = "idle", !.idue = @ \ {<<"", "tick">>}], "CTX_STOPPED", "ctx")
            IN Push(Push(s1, Fr("lstop2", NoMod, r.ctx.gen, r.ctx.qcode)), Fr("flush", NoMod, 0, RegSeq(s1)))
      [] f.k = "flush" ->        \* flush_pubsub_msgs for each module: RUNNING gets everything in one invocation, others lose it
            \* (the module table changed under the pass - the module visited last is still there but the number of modules is another one:
            \* the pass starts over on the table as it is now; modules flushed already have nothing left unless they were sent something since)
            LET changed == f.m # NoMod /\ f.m \in Registered(r) /\ f.a # Cardinality(Registered(r))
                fb == IF changed THEN RegSeq(r) ELSE f.b IN
            IF fb = <<>> THEN r
            ELSE LET x == Head(fb)
                     rest == Push(r, [f EXCEPT !.b = Tail(fb), !.m = x, !.a = Cardinality(Registered(r))])
                     ms == [i \in 1..Len(r.mod[x].pipe) |-> BindUd(r, x, r.mod[x].pipe[i])]
                     pills == {i \in 1..Len(ms) : ms[i].topic = "PILL"}
                     k == IF pills = {} THEN 0 ELSE CHOOSE i \in pills : \A j \in pills : i <= j
                     \* a pending poison pill: what was sent before it is delivered, then the module is stopped (the rest is dropped)
                     head == IF k = 0 THEN ms ELSE SubSeq(ms, 1, k - 1)
                     tail == IF k = 0 THEN <<>> ELSE SubSeq(ms, k + 1, Len(ms))
                     s1 == [rest EXCEPT !.mod[x].pipe = tail]
                     s2 == IF k = 0 THEN s1 ELSE Push(s1, Fr("pillstop", x, 0, 0))
                 IN IF x \notin Registered(r) \/ ms = <<>> THEN rest
                    ELSE IF r.mod[x].st = "running"
                      \* events still held back by batching were sent earlier: they go first, in the same invocation
                      THEN IF head = <<>> THEN s2
                           ELSE Invoke([s2 EXCEPT !.mod[x].bq = <<>>], x, r.mod[x].bq \o head)
                      ELSE [rest EXCEPT !.mod[x].pipe = <<>>, !.pay = ReleaseAll(rest.pay, ms)]
      [] f.k = "pillstop" ->
            IF r.mod[m].st = "running" THEN Push(r, Fr("stop", m, TRUE, 0)) ELSE r
      [] f.k = "lstop2" ->       \* quit code; a non-persistent context without modules is released now
            \* the task pool is torn down: running tasks are waited for (their notifications stay pending for the next loop run),
            \* tasks still waiting in its queue are discarded and never run
            LET code == f.b                 \* (the quit code of the context that looped, whatever its callbacks did to the thread's context)
                r1 == JoinAll([r EXCEPT !.tq = <<>>, !.tlost = @ \cup InQueue(r)]) IN
            IF Registered(r1) = {} /\ ~CtxPersist /\ r1.ctx.st # "none" /\ r1.ctx.gen = f.a THEN Ret(ReleaseCtx(r1), code) ELSE Ret(r1, code)
      [] f.k = "cdereg" ->       \* m_ctx_deregister(): every module is deregistered (not from the user), then the context is released
            \* (a stop callback may have deregistered the context itself and registered a fresh one: that one stays)
            IF f.b = <<>> THEN (IF r.ctx.st = "none" \/ r.ctx.gen # f.a THEN Ret(r, 0) ELSE Ret(ReleaseCtx(r), 0))
            ELSE LET x == Head(f.b)
                     rest == Push(r, [f EXCEPT !.b = Tail(f.b)])
                 IN IF x \notin Registered(r) THEN rest
                    ELSE Push(rest, Fr("dereg", x, FALSE, 0))
      [] f.k = "rereg" ->        \* m_mod_register() continuing after the replaced module was deregistered: its stop callback may have
                                 \* finalised or deregistered the context, in which nothing can be registered any more
            IF r.ctx.st = "none" \/ r.ctx.fin \/ r.ctx.gen # f.b THEN Ret(r, NEG)
            ELSE Ret(TableAdd([r EXCEPT !.mod[m] = NewMod(m, f.a)], m), 0)

RECURSIVE Run(_)
Run(s0) == LET s == Settle(s0) IN
           IF s.stack = <<>> THEN s
           ELSE IF Top(s).k = "cb" THEN s
           ELSE Run(Step(s))

(* ------------------------------ who may call what ------------------------------ *)
CbDepth(st) == Len(SelectSeq(st, LAMBDA f : f.k = "cb"))
InCb == S.stack # <<>> /\ Top(S).k = "cb"
AtTop == S.stack = <<>>
Can(op) == IF AtTop THEN op \in Ops ELSE (InCb /\ op \in CbOps /\ CbDepth(S.stack) <= MaxNest)
\* m_ctx(): no context, or the callback being executed belongs to a module denied access to its context
NoCtx == S.ctx.st = "none" \/ (S.cur # NoMod /\ "DENYCTX" \in S.mod[S.cur].fl)
Handle(m) == S.mod[m].h > 0                 \* the program holds a reference to (a possibly zombie) module m
\* M_MOD_ASSERT: zombie, or not the caller's context (none / denied)
ModRefused(m) == S.mod[m].st = "zombie" \/ NoCtx \/ S.mod[m].old          \* (old: its context was released; the thread may have a fresh one by now)
Do(s) == S' = Run(s)
Refuse(code) == S' = [S EXCEPT !.ret = code]

(* ------------------------------ token bucket ------------------------------ *)
\* M_MOD_CONSUME_TOKEN: with a bucket configured (rate # 0) every rate-limited call needs - and takes - one token
NoTok(m) == Limited(S, m) /\ S.mod[m].tb.tok = 0
\* a call that passed its guards: without a token it fails with EAGAIN and no effect, else it spends one and has effect s
Rated(m, s) == IF NoTok(m) THEN Refuse(EAGAIN) ELSE Do(Spend(s, m))

(* ------------------------------ context calls ------------------------------ *)
CtxRegister == /\ Can("CtxRegister")
               /\ (InCb /\ S.ctx.st = "none" => S.ctx.gen < 2)      \* (modelling bound: at most two fresh contexts inside one outermost call)
               /\ IF S.ctx.st # "none" THEN Refuse(EEXIST)
                  ELSE Do([S EXCEPT !.ctx = [Ctx0 EXCEPT !.st = "idle", !.gen = IF AtTop THEN 0 ELSE S.ctx.gen + 1], !.run = 0, !.ret = 0])

CtxDeregister == /\ Can("CtxDeregister")
                 /\ IF NoCtx \/ S.ctx.st # "idle" THEN Refuse(NEG)
                    ELSE Do(Push([S EXCEPT !.ctx.fin = TRUE], Fr("cdereg", NoMod, S.ctx.gen, RegSeq(S))))   \* finalised first: nobody joins a context being torn down

CtxFinalize == /\ Can("CtxFinalize")
               /\ IF NoCtx THEN Refuse(NEG) ELSE Do([S EXCEPT !.ctx.fin = TRUE, !.ret = 0])

CtxQuit(c) == /\ Can("CtxQuit")
              /\ IF NoCtx \/ S.ctx.st # "looping" THEN Refuse(NEG)
                 ELSE Do([S EXCEPT !.ctx.quit = TRUE, !.ctx.qcode = c, !.ret = 0])

\* sources the poll reports ready: <<m, "ps", 0>> mailbox of a RUNNING module holding a message; <<m, "fd", f>> a registered
\* descriptor that is readable; <<m, "tmr", key>> an expired timer - always of RUNNING modules only (others are not polled)
Ready(s) == {<<m, "ps", 0>> : m \in {x \in Mods : s.mod[x].st = "running" /\ s.mod[x].pipe # <<>>}}
            \cup {e \in Mods \X {"fd"} \X Keys : s.mod[e[1]].st = "running" /\ HasSrc(s, e[1], "fd", e[3]) /\ e[3] \in s.rdy}
            \cup {e \in Mods \X {"tmr"} \X Keys : s.mod[e[1]].st = "running" /\ HasSrc(s, e[1], "tmr", e[3]) /\ <<e[1], e[3]>> \in s.due}
            \cup {e \in Mods \X {"sgn"} \X Keys : s.mod[e[1]].st = "running" /\ HasSrc(s, e[1], "sgn", e[3]) /\ e[3] \in s.sigp}
            \cup {e \in Mods \X {"pid"} \X Keys : s.mod[e[1]].st = "running" /\ HasSrc(s, e[1], "pid", e[3]) /\ e[3] \in s.dead}
            \cup {e \in Mods \X {"path", "task"} \X Keys : s.mod[e[1]].st = "running" /\ HasSrc(s, e[1], e[2], e[3]) /\ e \in s.xdue}
            \cup {<<d[1], d[2], 0>> : d \in s.idue}                   \* expired internal timers: refill, batch timeout, tick
IsPerm(b, T) == Len(b) = Cardinality(T) /\ {b[i] : i \in 1..Len(b)} = T
Batches(s) == IF Ready(s) = {} THEN {<<>>}
              ELSE UNION {{b \in [1..Cardinality(T) -> T] : IsPerm(b, T)} : T \in {U \in (SUBSET Ready(s)) \ {{}} : Cardinality(U) <= MaxBatch}}
AllEvents == {e \in (Mods \X {"ps", "tb", "bt"} \X {0}) \cup (Mods \X {"fd", "tmr", "sgn", "path", "pid", "task"} \X Keys) \cup {<<"", "tick", 0>>} : e[2] \in EvKinds}
AllBatches == UNION {{b \in [1..Cardinality(T) -> T] : IsPerm(b, T)} : T \in {U \in SUBSET AllEvents : Cardinality(U) <= MaxBatch}}
\* m_ctx_dispatch(): start / deliver one poll batch b / stop
Dispatch(b) == /\ Can("Dispatch") /\ AtTop
               /\ IF NoCtx THEN b = <<>> /\ Refuse(NEG)
                  ELSE IF S.ctx.st = "idle" THEN b = <<>> /\ Do(Push(S, Fr("lstart", NoMod, 0, 0)))
                  ELSE IF S.ctx.quit \/ S.run = 0 THEN b = <<>> /\ Do(Push(S, Fr("lstop", NoMod, 0, 0)))
                  ELSE b \in Batches(S) /\ Do(Push(S, Fr("batch", NoMod, 0, b)))

\* the poll is interrupted by a signal handler of the application (EINTR): nothing is delivered, nothing changes, the loop goes on
DispatchIntr == /\ Can("DispatchIntr") /\ AtTop /\ ~NoCtx /\ S.ctx.st = "looping" /\ ~(S.ctx.quit \/ S.run = 0)
                /\ S' = [S EXCEPT !.ret = 0]

(* ------------------------------ module calls ------------------------------ *)
\* (modelling bound) a name is not registered again while a call concerning its previous incarnation is still in progress
NoFrames(m) == \A i \in 1..Len(S.stack) : S.stack[i].m # m

ModRegister(m, i) ==
    /\ Can("ModRegister") /\ NoFrames(m) /\ i \in 1..Len(Flags[m])
    /\ IF NoCtx THEN Refuse(NEG)
       ELSE IF S.ctx.fin THEN Refuse(NEG)
       ELSE IF m \in Registered(S)
         THEN IF "REPLACE" \notin S.mod[m].fl THEN Refuse(EEXIST)                 \* the *registered* module decides whether it may be replaced
              ELSE IF "PERSIST" \in S.mod[m].fl /\ S.ctx.st = "looping" THEN Refuse(NEG)
              \* the replaced module is deregistered first (the program drops its old reference afterwards)
              ELSE Do(Push(Push(S, Fr("rereg", m, i, S.ctx.gen)), Fr("dereg", m, FALSE, 0)))
       ELSE Handle(m) = FALSE /\ Do(TableAdd([S EXCEPT !.mod[m] = NewMod(m, i), !.ret = 0], m))

ModDeregister(m) ==
    /\ Can("ModDeregister") /\ m \in Targets /\ Handle(m)
    /\ IF ModRefused(m) \/ ~S.mod[m].reg THEN Refuse(NEG)            \* (not in the table: its deregistration is already in progress)
       ELSE IF "PERSIST" \in S.mod[m].fl /\ S.ctx.st = "looping" THEN Refuse(NEG)
       ELSE Do(Push(S, Fr("dereg", m, TRUE, 0)))

\* a state setter is refused on a zombie / foreign module and outside its source states
StateRefused(m, from) == ModRefused(m) \/ S.mod[m].st \notin from
ModStart(m)  == /\ Can("ModStart") /\ m \in Targets /\ Handle(m)
                /\ IF StateRefused(m, {"idle", "stopped"}) THEN Refuse(NEG) ELSE Rated(m, Push(S, Fr("start", m, TRUE, 0)))
ModResume(m) == /\ Can("ModResume") /\ m \in Targets /\ Handle(m)
                /\ IF StateRefused(m, {"paused"}) THEN Refuse(NEG) ELSE Rated(m, Push(S, Fr("start", m, FALSE, 0)))
ModPause(m)  == /\ Can("ModPause") /\ m \in Targets /\ Handle(m)
                /\ IF StateRefused(m, {"running"}) THEN Refuse(NEG) ELSE Rated(m, Push(S, Fr("stop", m, FALSE, 0)))
ModStop(m)   == /\ Can("ModStop") /\ m \in Targets /\ Handle(m)
                /\ IF StateRefused(m, {"running", "paused"}) THEN Refuse(NEG) ELSE Rated(m, Push(S, Fr("stop", m, TRUE, 0)))

\* the program takes / drops a reference on a module object (m_mem_ref / m_mem_unref); the last reference of a module that is
\* still registered is not dropped (the program would lose its handle)
RefMod(m) == /\ Can("RefMod") /\ Handle(m) /\ S.mod[m].h < MaxRefs
             /\ S' = [S EXCEPT !.mod[m].h = @ + 1, !.ret = 0]
DropRef(m) == /\ Can("DropRef") /\ Handle(m) /\ NoFrames(m) /\ (S.mod[m].st = "zombie" \/ S.mod[m].h > 1)
              /\ S' = [S EXCEPT !.mod[m] = IF @.h = 1 THEN Mod0 ELSE [@ EXCEPT !.h = @ - 1], !.ret = 0]

(* ------------------------------ pub/sub ------------------------------ *)
PubRefused(m) == ModRefused(m) \/ "DENYPUB" \in S.mod[m].fl
SubRefused(m) == ModRefused(m) \/ "DENYSUB" \in S.mod[m].fl

Tell(m, r, p, auto) ==
    /\ Can("Tell") /\ m \in Senders /\ Handle(m) /\ Handle(r) /\ FreePay(S) # {} /\ p = MinFree(S)
    /\ IF PubRefused(m) \/ S.mod[r].old THEN Refuse(NEG)             \* (a module of another / released context cannot be addressed)
       ELSE Rated(m, Ret(Send(S, IF Active(S, r) THEN <<r>> ELSE <<>>, p, auto, Msg(p, m, "", FALSE)), 0))

Publish(m, t, p, auto) ==
    /\ Can("Publish") /\ m \in Senders /\ Handle(m) /\ FreePay(S) # {} /\ p = MinFree(S) /\ t \in Topics
    /\ IF PubRefused(m) THEN Refuse(NEG)
       ELSE Rated(m, Ret(Send(S, Subscribers(S, t), p, auto, Msg(p, m, t, FALSE)), 0))

\* publishing on the reserved prefix is always refused
PublishSys(m) == /\ Can("PublishSys") /\ Handle(m) /\ Refuse(NEG)

Broadcast(m, p, auto) ==
    /\ Can("Broadcast") /\ m \in Senders /\ Handle(m) /\ FreePay(S) # {} /\ p = MinFree(S)
    /\ IF PubRefused(m) THEN Refuse(NEG)
       ELSE Rated(m, Ret(Send(S, AllActive(S), p, auto, Msg(p, m, "", FALSE)), 0))

Pill(m, r) ==
    /\ Can("Pill") /\ m \in Senders /\ Handle(m) /\ Handle(r)
    /\ IF PubRefused(m) \/ S.mod[r].st # "running" THEN Refuse(NEG)
       ELSE Rated(m, Ret(Deliver(S, <<r>>, Msg(0, m, "PILL", TRUE)), 0))

\* a repeated subscription is updated in place (one subscription per pattern)
Subscribe(m, q, pr, os, u) ==
    /\ Can("Subscribe") /\ m \in SubTargets /\ Handle(m) /\ q \in Pats /\ pr \in Prios /\ os \in SubOneshot /\ u \in UdVals
    /\ IF SubRefused(m) THEN Refuse(NEG)
       \* the same flags: the subscription object stays and gets the new userdata; other flags (or none yet): a new object (.g tells
       \* it from the object it replaces and from those that messages still waiting in the mailbox came through)
       ELSE LET olds == {x \in S.mod[m].subs : x.pat = q}
                same == {x \in olds : x.pr = pr /\ x.os = os}
                \* (only messages that came through a one-shot subscription look at the identity; a number no such message carries is reused)
                used == {S.mod[m].pipe[i].sg : i \in {j \in 1..Len(S.mod[m].pipe) : S.mod[m].pipe[j].ud = q /\ S.mod[m].pipe[j].os}}
                g == IF same # {} THEN (CHOOSE x \in same : TRUE).g ELSE CHOOSE n \in 0..(Cap + 1) : n \notin used /\ \A k \in 0..(Cap + 1) : k \notin used => n <= k
            IN Rated(m, [S EXCEPT !.mod[m].subs = {x \in @ : x.pat # q} \cup {[pat |-> q, pr |-> pr, os |-> os, u |-> u, g |-> g]}, !.ret = 0])

Unsubscribe(m, q) ==
    /\ Can("Unsubscribe") /\ m \in SubTargets /\ Handle(m) /\ q \in Pats
    /\ IF SubRefused(m) THEN Refuse(NEG)
       ELSE IF q \notin SubPats(S, m) THEN Rated(m, Ret(S, NEG))                  \* (the token is taken before the lookup)
       ELSE Rated(m, [S EXCEPT !.mod[m].subs = {x \in @ : x.pat # q}, !.ret = 0])

(* ------------------------------ batching, stash, become ------------------------------ *)
SetBatchSize(m, n) ==
    /\ Can("SetBatchSize") /\ m \in Targets /\ Handle(m) /\ n \in BatchSizes
    /\ IF ModRefused(m) THEN Refuse(NEG) ELSE Rated(m, [S EXCEPT !.mod[m].blen = n, !.ret = 0])

\* inside a handler of m: retain the i-th event of this invocation (not a high priority one) beyond the invocation
Stash(m, i) ==
    /\ Can("Stash") /\ InCb /\ Top(S).a = "evt" /\ Top(S).m = m /\ i \in 1..Len(Top(S).ev) /\ i \notin Top(S).sm
    /\ LET e == Top(S).ev[i] IN
       IF ModRefused(m) \/ S.mod[m].st # "running" THEN Refuse(NEG)
       ELSE IF e.pr = "H" THEN Rated(m, Ret(S, NEG))                               \* (the token is taken before the priority check)
       ELSE Rated(m, [S EXCEPT !.mod[m].stash = Append(@, e), !.stack[1].sm = @ \cup {i},
                               !.pay = IF e.p = 0 THEN @ ELSE [@ EXCEPT ![e.p].copies = @ + 1], !.ret = 0])

\* hand the n oldest stashed events to the current handler, in one invocation; returns how many
Unstash(m, n) ==
    /\ Can("Unstash") /\ m \in Targets /\ Handle(m) /\ n \in UnstashNs
    /\ IF ModRefused(m) \/ S.mod[m].st # "running" THEN Refuse(NEG)
       ELSE LET k == IF n < Len(S.mod[m].stash) THEN n ELSE Len(S.mod[m].stash)
                evs == SubSeq(S.mod[m].stash, 1, k)
                s1 == [S EXCEPT !.mod[m].stash = SubSeq(@, k + 1, Len(@))]
            IN IF k = 0 THEN Rated(m, Ret(s1, 0))
               ELSE Rated(m, Invoke(Push(s1, Fr("retval", m, k, 0)), m, evs))

Become(m, h) ==
    /\ Can("Become") /\ m \in Targets /\ Handle(m) /\ h \in HandlerIds /\ Len(S.mod[m].hs) < 2
    /\ IF ModRefused(m) \/ S.mod[m].st # "running" THEN Refuse(NEG)
       ELSE Rated(m, [S EXCEPT !.mod[m].hs = <<h>> \o @, !.ret = 0])

Unbecome(m) ==
    /\ Can("Unbecome") /\ m \in Targets /\ Handle(m)
    /\ IF ModRefused(m) \/ S.mod[m].st # "running" THEN Refuse(NEG)
       ELSE IF S.mod[m].hs = <<>> THEN Rated(m, Ret(S, NEG))                       \* (the token is taken before the pop)
       ELSE Rated(m, [S EXCEPT !.mod[m].hs = Tail(@), !.ret = 0])

(* ------------------------------ event sources ------------------------------ *)
\* register_mod_src(): a key that is present is refused with EEXIST (and nothing else happens: in particular an auto-close
\* descriptor is not closed); task sources cannot be deregistered
SrcRegister(m, k, key, o) ==
    /\ Can("SrcRegister") /\ Handle(m) /\ m \in Targets /\ k \in Kinds /\ key \in Keys /\ o \in SrcOpts
    /\ (k = "fd" => S.ufd[key] = "open") /\ (k # "fd" => ~o.ac)
    /\ (k = "fd" => \A x \in Mods \ {m} : ~HasSrc(S, x, "fd", key))       \* (precondition: one owner per user descriptor)
    /\ (k = "fd" => ~Holds(S, key))                                       \* (modelling bound: no event of an earlier registration of it is still referenced)
    /\ (k = "sgn" => \A x \in Mods \ {m} : ~HasSrc(S, x, "sgn", key))      \* (precondition: one owner per signal - the kernel hands a signal to one reader)
    /\ (k = "pid" /\ key \in BadKeys => S.mod[m].st = "running")              \* (modelling bound: registered on a RUNNING module only - what a module that cannot arm one of its sources does when it starts is not settled by any property)
    /\ (k \in {"sgn", "pid"} => ~InBatch(S, m, k, key))                     \* (modelling bound: not registered again while an event of its previous registration waits in the current batch)
    /\ IF k = "fd" /\ o.pr = "L" THEN Refuse(NEG)                                \* (bad parameter: descriptor events are always high priority)
       ELSE IF ModRefused(m) THEN Refuse(NEG)
       ELSE IF HasSrc(S, m, k, key) THEN Rated(m, Ret(S, EEXIST))                 \* (the token is taken before the lookup)
       ELSE IF k = "pid" /\ key \in BadKeys THEN Rated(m, Ret(S, NEG))              \* (it cannot be armed: refused, and no trace of it stays)
       ELSE LET s1 == [S EXCEPT !.mod[m].src = @ \cup {[k |-> k, key |-> key, os |-> (o.os \/ k \in {"task", "thr"}), ac |-> o.ac, pr |-> o.pr]}, !.ret = 0]
            \* a task registered on a RUNNING module is started at once
            IN Rated(m, IF k = "task" /\ S.mod[m].st = "running" THEN StartTask(s1, <<m, key>>) ELSE s1)

SrcDeregister(m, k, key) ==
    /\ Can("SrcDeregister") /\ Handle(m) /\ m \in Targets /\ k \in Kinds /\ key \in Keys
    /\ IF ModRefused(m) \/ k = "task" THEN Refuse(NEG)
       ELSE IF ~HasSrc(S, m, k, key) THEN Rated(m, Ret(S, NEG))
       ELSE LET src == SrcOf(S, m, k, key) IN
            Rated(m, [S EXCEPT !.mod[m].src = @ \ {src}, !.ufd = CloseAc(S.ufd, {src}),
                         !.due = IF k = "tmr" THEN @ \ {<<m, key>>} ELSE @, !.xdue = @ \ {<<m, k, key>>}, !.ret = 0])

\* environment: a user descriptor becomes readable / is drained / a closed one is replaced by a fresh one; a timer expires
FdReady(f) == /\ Can("FdReady") /\ AtTop /\ f \in Keys /\ S.ufd[f] = "open" /\ f \notin S.rdy
              /\ S' = [S EXCEPT !.rdy = @ \cup {f}]
FdHup(f) == /\ Can("FdHup") /\ AtTop /\ f \in Keys /\ S.ufd[f] = "open" /\ f \notin S.hup
            /\ S' = [S EXCEPT !.rdy = @ \cup {f}, !.hup = @ \cup {f}]
FdDrain(f) == /\ Can("FdDrain") /\ f \in S.rdy /\ f \notin S.hup
              /\ S' = [S EXCEPT !.rdy = @ \ {f}]
FdReopen(f) == /\ Can("FdReopen") /\ AtTop /\ f \in Keys /\ S.ufd[f] = "closed"
               /\ S' = [S EXCEPT !.ufd[f] = "open", !.hup = @ \ {f}]
TmrFire(m, key) == /\ Can("TmrFire") /\ AtTop /\ key \in Keys /\ S.mod[m].st = "running" /\ HasSrc(S, m, "tmr", key) /\ <<m, key>> \notin S.due
                   /\ S' = [S EXCEPT !.due = @ \cup {<<m, key>>}]
\* environment: a signal is raised (it stays pending for the process until some signal source consumes it); something changes
\* in a watched path (every watch that is armed, i.e. of a RUNNING module, sees it); a watched process exits; a task's function returns
SgnRaise(key) == /\ Can("SgnRaise") /\ AtTop /\ key \in Keys /\ key \notin S.sigp
                 /\ S' = [S EXCEPT !.sigp = @ \cup {key}]
PathTouch(key) == /\ Can("PathTouch") /\ AtTop /\ key \in Keys
                  /\ LET w == {m \in Mods : S.mod[m].st = "running" /\ HasSrc(S, m, "path", key)} IN
                     /\ w # {} /\ \A m \in w : <<m, "path", key>> \notin S.xdue
                     /\ S' = [S EXCEPT !.xdue = @ \cup {<<m, "path", key>> : m \in w}]
PidExit(key) == /\ Can("PidExit") /\ AtTop /\ key \in Keys /\ key \notin S.dead
                /\ S' = [S EXCEPT !.dead = @ \cup {key}]
TaskFinish(m, key) == /\ Can("TaskFinish") /\ AtTop /\ <<m, key>> \in S.trun
                      /\ LET s1 == [S EXCEPT !.trun = @ \ {<<m, key>>}, !.xdue = @ \cup {<<m, "task", key>>}]
                         IN \* the thread that became free takes the next task from the queue
                            S' = IF s1.tq = <<>> THEN s1 ELSE [s1 EXCEPT !.trun = @ \cup {Head(s1.tq)}, !.tq = Tail(@)]
\* m_mod_set_tokenbucket(): the old refill timer goes (whatever is left in the old bucket: it is being replaced), the new bucket starts full,
\* its refill timer is registered (a rate-limited call under the new bucket: with burst 0 it fails with EAGAIN)
SetTokenBucket(m, v) ==
    /\ Can("SetTokenBucket") /\ Handle(m) /\ m \in Targets /\ v \in TbVals
    /\ IF ModRefused(m) THEN Refuse(NEG)
       ELSE LET s0 == [S EXCEPT !.idue = @ \ {<<m, "tb">>}] IN
            IF v[1] = 0 THEN Do([s0 EXCEPT !.mod[m].tb = [rate |-> 0, burst |-> 0, tok |-> 0, tmr |-> FALSE], !.ret = 0])
            ELSE IF v[2] = 0 THEN Do([s0 EXCEPT !.mod[m].tb = [rate |-> v[1], burst |-> 0, tok |-> 0, tmr |-> FALSE], !.ret = EAGAIN])
            ELSE Do([s0 EXCEPT !.mod[m].tb = [rate |-> v[1], burst |-> v[2], tok |-> v[2] - 1, tmr |-> TRUE], !.ret = 0])
\* the refill timer expires (armed only while the module is RUNNING)
TbTick(m) == /\ Can("TbTick") /\ AtTop /\ S.mod[m].st = "running" /\ S.mod[m].tb.tmr /\ <<m, "tb">> \notin S.idue
             /\ S' = [S EXCEPT !.idue = @ \cup {<<m, "tb">>}]

\* m_mod_set_batch_timeout(): with no batch size configured only the timeout triggers (size = "infinite")
\* With a token bucket the call pays one token for removing the old timer and one for registering the new one; it is refused as a
\* whole, without effect, when the bucket cannot pay for both (C18: "fail with EAGAIN and have no effect")
SetBatchTimeout(m, on) ==
    /\ Can("SetBatchTimeout") /\ Handle(m) /\ m \in Targets
    /\ LET need == (IF S.mod[m].bt THEN 1 ELSE 0) + (IF on THEN 1 ELSE 0)
           pay(s) == IF Limited(S, m) THEN [s EXCEPT !.mod[m].tb.tok = @ - need] ELSE s
       IN
       IF ModRefused(m) THEN Refuse(NEG)
       ELSE IF Limited(S, m) /\ S.mod[m].tb.tok < need THEN Refuse(EAGAIN)
       ELSE IF on THEN Do(pay([S EXCEPT !.mod[m].bt = TRUE, !.mod[m].blen = IF @ = 0 THEN 99 ELSE @, !.idue = @ \ {<<m, "bt">>}, !.ret = 0]))
       \* (removing the timeout also removes the "unlimited" batch size that stood for timed batching alone)
       ELSE Do(pay([S EXCEPT !.mod[m].bt = FALSE, !.mod[m].blen = IF @ = 99 THEN 0 ELSE @, !.idue = @ \ {<<m, "bt">>}, !.ret = 0]))
BtFire(m) == /\ Can("BtFire") /\ AtTop /\ S.mod[m].st = "running" /\ S.mod[m].bt /\ <<m, "bt">> \notin S.idue
             /\ S' = [S EXCEPT !.idue = @ \cup {<<m, "bt">>}]

\* m_ctx_set_tick(): 0 = off; the tick timer is armed while the context loops
CtxSetTick(v) == /\ Can("CtxSetTick") /\ v \in TickVals
                 /\ IF NoCtx THEN Refuse(NEG) ELSE Do([S EXCEPT !.ctx.tick = v, !.idue = @ \ {<<"", "tick">>}, !.ret = 0])
TickFire == /\ Can("TickFire") /\ AtTop /\ S.ctx.st = "looping" /\ S.ctx.tick # 0 /\ <<"", "tick">> \notin S.idue
            /\ S' = [S EXCEPT !.idue = @ \cup {<<"", "tick">>}]

\* a callback (or the program) leaves a value in errno: no effect on anything the library does
SetErrno(v) == /\ Can("SetErrno") /\ v \in Errnos /\ S.errno # v
               /\ S' = [S EXCEPT !.errno = v]

(* ------------------------------ other threads (C14) ------------------------------ *)
\* a module operation attempted from another thread (own = that thread has a context of its own or none): permission error,
\* no effect whatsoever
ForeignCall(op, m, own) ==
    /\ Can("ForeignCall") /\ Handle(m) /\ op \in ForeignOps /\ own \in BOOLEAN          \* (also while a callback of m is executing)
    /\ S' = [S EXCEPT !.ret = EPERMC]
\* a message cannot be addressed to a module of another (live) context
ForeignTell(m) ==
    /\ Can("ForeignTell") /\ Handle(m)
    /\ S' = [S EXCEPT !.ret = NEG]

(* ------------------------------ events retained by the program ------------------------------ *)
\* inside a handler: m_mem_ref() on the i-th event of this invocation; it stays valid until released
RetainEvt(i) == /\ Can("RetainEvt") /\ InCb /\ Top(S).a = "evt" /\ i \in 1..Len(Top(S).ev) /\ Len(S.held) < MaxHeld
                /\ LET e == Top(S).ev[i] IN
                   S' = [S EXCEPT !.held = Append(@, e), !.pay = IF e.p = 0 THEN @ ELSE [@ EXCEPT ![e.p].copies = @ + 1], !.ret = 0]
ReleaseEvt(j) == /\ Can("ReleaseEvt") /\ j \in 1..Len(S.held)
                 /\ LET e == S.held[j] IN
                    Do([S EXCEPT !.held = SubSeq(@, 1, j - 1) \o SubSeq(@, j + 1, Len(@)), !.pay = Release1(@, e.p), !.ret = 0])

(* ------------------------------ leaving a callback ------------------------------ *)
\* v: the callback's answer (on_eval / on_start: BOOLEAN; others: TRUE)
CbReturn(v) ==
    /\ InCb
    /\ v \in (IF Top(S).a \in {"eval", "start"} THEN EvalVals ELSE {TRUE})
    /\ LET r == [Pop(S) EXCEPT !.cur = NoMod]            \* curr_mod is cleared, not restored (as coded)
       IN Do(IF r.stack # <<>> /\ Top(r).k \in {"start2", "eval2"} THEN [r EXCEPT !.stack[1].a = v] ELSE r)

Next == \/ CtxRegister \/ CtxDeregister \/ CtxFinalize
        \/ \E c \in QuitCodes : CtxQuit(c)
        \/ \E b \in AllBatches : Dispatch(b)
        \/ DispatchIntr
        \/ \E m \in Mods : RefMod(m) \/ ForeignTell(m) \/ \E op \in ForeignOps, own \in BOOLEAN : ForeignCall(op, m, own)
        \/ \E i \in 1..3 : RetainEvt(i) \/ ReleaseEvt(i)
        \/ \E m \in Mods : \/ (\E i \in 1..2 : ModRegister(m, i)) \/ ModDeregister(m) \/ ModStart(m) \/ ModResume(m) \/ ModPause(m) \/ ModStop(m)
                           \/ DropRef(m) \/ PublishSys(m)
                           \/ \E r \in Mods : Pill(m, r)
                           \/ \E p \in 1..MaxPay, auto \in AutoVals :
                                 \/ Broadcast(m, p, auto)
                                 \/ \E r \in Mods : Tell(m, r, p, auto)
                                 \/ \E t \in Topics : Publish(m, t, p, auto)
                           \/ \E q \in Pats : Unsubscribe(m, q) \/ \E pr \in Prios, os \in SubOneshot, u \in UdVals : Subscribe(m, q, pr, os, u)
                           \/ \E n \in BatchSizes : SetBatchSize(m, n)
                           \/ \E i \in 1..3 : Stash(m, i)
                           \/ \E n \in UnstashNs : Unstash(m, n)
                           \/ \E h \in HandlerIds : Become(m, h)
                           \/ Unbecome(m)
        \/ \E m \in Mods, k \in Kinds, key \in Keys : SrcDeregister(m, k, key) \/ \E o \in SrcOpts : SrcRegister(m, k, key, o)
        \/ \E f \in Keys : FdReady(f) \/ FdDrain(f) \/ FdReopen(f) \/ FdHup(f) \/ \E m \in Mods : TmrFire(m, f)
        \/ \E f \in Keys : SgnRaise(f) \/ PathTouch(f) \/ PidExit(f) \/ \E m \in Mods : TaskFinish(m, f)
        \/ \E v \in Errnos : SetErrno(v)
        \/ \E m \in Mods : TbTick(m) \/ BtFire(m) \/ (\E v \in TbVals : SetTokenBucket(m, v)) \/ (\E on \in BOOLEAN : SetBatchTimeout(m, on))
        \/ TickFire \/ \E v \in TickVals : CtxSetTick(v)
        \/ \E v \in BOOLEAN : CbReturn(v)
Spec == Init /\ [][Next]_vars

(* ------------------------------- monitors ------------------------------- *)
Quiescent == S.stack = <<>>
\* C01: legal edges of the module state machine
LegalEdge(a, b) == \/ a = b
                   \/ <<a, b>> \in {<<"none", "idle">>, <<"idle", "running">>, <<"running", "paused">>, <<"paused", "running">>,
                                   <<"running", "stopped">>, <<"paused", "stopped">>, <<"stopped", "running">>,
                                   <<"zombie", "none">>}
                   \/ b \in {"zombie", "none"}                        \* deregistration from any state (none = zombie nobody references)
                   \/ (a = "idle" /\ b = "stopped")                   \* transient of deregistering a never started module (stop path), see DESIGN C01
\* Run() composes several internal transitions in one step: the per-step check is done inside Step via this predicate on
\* every intermediate pair in TLC runs of Core_mc_* with the ghost `trail` (see CoreMon.tla); here the coarse version:
C01_RunningCount == Quiescent => S.run = Cardinality({m \in Mods : S.mod[m].st = "running"})
C01_NoHandlerUnlessRunning == \A i \in 1..Len(S.stack) : (S.stack[i].k = "cb" /\ S.stack[i].a = "evt") => S.stack[i].b = 1
\* C07: no modules without a context; one context
C07_NoCtxNoModules == S.ctx.st = "none" => Registered(S) = {}
\* C07: once a context is finalised nothing joins it (the same context: it is neither released nor a fresh one in this step)
C07_NoJoinAfterFinalize == [][(S.ctx.st # "none" /\ S'.ctx.st # "none" /\ S.ctx.fin /\ S'.ctx.fin) => Registered(S') \subseteq Registered(S)]_vars
\* C02: payload accounting: an auto-free payload is released exactly when its last copy is gone
C02_AutoFree == \A p \in 1..MaxPay : /\ (S.pay[p].st = "freed" => S.pay[p].auto /\ S.pay[p].copies = 0)
                                      /\ (S.pay[p].auto /\ S.pay[p].copies = 0 /\ S.pay[p].st # "unused" => S.pay[p].st = "freed")
\* copies are where they can be found: mailboxes, or held by a running handler invocation
CountIn(seq, p) == Cardinality({i \in 1..Len(seq) : seq[i].p = p})
RECURSIVE SumF(_, _)
SumF(f, D) == IF D = {} THEN 0 ELSE LET x == CHOOSE x \in D : TRUE IN f[x] + SumF(f, D \ {x})
C02_CopyAccounting == \A p \in 1..MaxPay :
     S.pay[p].copies = SumF([m \in Mods |-> CountIn(S.mod[m].pipe, p) + CountIn(S.mod[m].bq, p) + CountIn(S.mod[m].stash, p)], Mods)
                       + SumF([i \in 1..Len(S.stack) |-> IF S.stack[i].k = "evt2" THEN CountIn(S.stack[i].ev, p) ELSE 0], 1..Len(S.stack))
                       + CountIn(S.held, p)
\* mailboxes exist only for RUNNING / PAUSED modules (stop and deregistration discard)
C02_NoMailUnlessActive == \A m \in Mods : S.mod[m].pipe # <<>> => Active(S, m)
\* C13/C16/C17: batch queue, stash and handler stack exist only between start and stop
C13_ClearedOnStop == \A m \in Mods : S.mod[m].st \notin {"running", "paused"} =>
                        (S.mod[m].bq = <<>> /\ S.mod[m].stash = <<>> /\ S.mod[m].hs = <<>>)
\* C13: what waits in the batch queue at quiescence could not trigger an invocation: the newest non-low event (if any) arrived
\* while the queue was below the batch size
C13_HeldBackForAReason == Quiescent => \A m \in Mods :
                             LET q == S.mod[m].bq IN
                             (\A i \in 1..Len(q) : q[i].pr # "H") /\
                             ((\E i \in 1..Len(q) : q[i].pr = "N") =>
                                  LET j == CHOOSE i \in 1..Len(q) : q[i].pr = "N" /\ \A k \in (i+1)..Len(q) : q[k].pr # "N" IN TRUE)
\* C09: at most one source per (kind, key)
C09_KeyedSet == \A m \in Mods : \A x, y \in S.mod[m].src : (x.k = y.k /\ x.key = y.key) => x = y
\* C09/C20: sources exist only up to the stop of their module
C09_DroppedOnStop == \A m \in Mods : S.mod[m].st \in {"zombie", "none"} => S.mod[m].src = {}
\* C04: a module object exists exactly while it is registered or referenced by the program (or still running a call)
C04_ObjectLifetime == \A m \in Mods : /\ (S.mod[m].st = "none" => (~S.mod[m].reg /\ S.mod[m].h = 0))
                                        /\ (S.mod[m].st = "zombie" => (~S.mod[m].reg /\ S.mod[m].h > 0))
\* C20: a descriptor is closed by the library only through auto-close; one that is registered is open
C20_RegisteredOpen == \A m \in Mods : \A x \in S.mod[m].src : x.k = "fd" => S.ufd[x.key] = "open"
\* C03/C04: a task thread never outlives its source; what is pending in a library-owned descriptor belongs to a polled source
C04_NoOrphanTask == \A t \in S.trun \cup InQueue(S) : S.mod[t[1]].st = "running" /\ HasSrc(S, t[1], "task", t[2])
C03_PendingHasSource == \A d \in S.xdue : S.mod[d[1]].st = "running" /\ HasSrc(S, d[1], d[2], d[3])
\* C18: never more tokens than the burst; no limit when the module is not between start and stop unless configured meanwhile
C18_TokensBounded == \A m \in Mods : Limited(S, m) => (S.mod[m].tb.tok >= 0 /\ S.mod[m].tb.tok <= S.mod[m].tb.burst)
\* C18: a successful rate-limited call takes exactly one token (two for a start: the call and its mailbox registration);
\* refills add at most one; nothing else changes the count (action property over a module that stays limited)
C18_Accounting == [][\A m \in Mods : (Limited(S, m) /\ Limited(S', m) /\ S.mod[m].tb.burst = S'.mod[m].tb.burst) =>
                         S'.mod[m].tb.tok - S.mod[m].tb.tok \in -12..1]_vars
\* C16: high priority events are never stashed
C16_NoHighStashed == \A m \in Mods : \A i \in 1..Len(S.mod[m].stash) : S.mod[m].stash[i].pr # "H"
\* state constraint for the pub/sub configuration: keep the population of registered-but-never-started modules small
PsConstraint == TRUE
\* state constraint for configurations with low-priority sources (their events pile up in the batch queue without bound)
BqBound == \A m \in Mods : Len(S.mod[m].bq) <= 2
TypeOK == /\ S.ctx.st \in {"none", "idle", "looping"}
          /\ \A m \in Mods : S.mod[m].st \in {"none", "idle", "running", "paused", "stopped", "zombie"}
          /\ S.run \in 0..(Cardinality(Mods) + 1)
=============================================================================
