\* one-shot subscriptions (C03, C09): set-up = 2 RUNNING modules; A subscribes literal / regex patterns one-shot or not, B publishes; a one-shot subscription fires once and is gone
CONSTANTS
  Mods = {"A", "B"}
  Order <- Order2
  Collide = FALSE
  Hooks <- Hooks_none2
  Flags <- Flags_none
  CtxPersist = TRUE
  Topics = {"t1"}
  Pats = {"t1", "t."}
  MaxPay = 1
  Cap = 2
  MaxNest = 1
  Ops = {"CtxDeregister", "DropRef", "Dispatch", "CtxQuit", "Publish", "Subscribe", "Unsubscribe", "ModPause", "ModResume"}
  CbOps = {"Publish"}
  EvalVals = {TRUE}
  Prios = {"N"}
  BatchSizes = {}
  UnstashNs = {}
  HandlerIds = {}
  Kinds = {}
  Keys = {1}
  BadKeys = {}
  SrcOpts = {}
  EvKinds = {"ps"}
  MaxBatch = 3
  Errnos = {}
  TbVals = {}
  TickVals = {}
  Targets = {"A"}
  SubTargets = {"A"}
  AutoVals = {TRUE}
  SubOneshot = {FALSE, TRUE}
  UdVals = {0}
  Senders = {"B"}
  QuitCodes = {0, 1}
  ForeignOps = {}
  MaxRefs = 1
  MaxHeld = 0
  PoolSize = 16
  Setup = "loop2"
INIT Init
NEXT Next
CHECK_DEADLOCK FALSE
INVARIANTS TypeOK C01_RunningCount C01_NoHandlerUnlessRunning C07_NoCtxNoModules C02_AutoFree C02_CopyAccounting C02_NoMailUnlessActive
