\* context tick (C19): 2 modules subscribed or not to the tick topic; tick period set, changed, removed; tick expiring while looping; loop stop / restart
CONSTANTS
  Mods = {"A", "B"}
  Order <- Order2
  Collide = FALSE
  Hooks <- Hooks_none2
  Flags <- Flags_none
  CtxPersist = TRUE
  Topics = {"t1"}
  Pats = {"CTX_TICK", "CTX_STOPPED"}
  MaxPay = 1
  Cap = 2
  MaxNest = 1
  Ops = {"CtxRegister", "CtxDeregister", "DropRef", "Dispatch", "CtxQuit", "ModRegister", "CtxSetTick", "TickFire", "Subscribe", "ModPause", "ModStop"}
  CbOps = {"CtxSetTick"}
  EvalVals = {TRUE}
  Prios = {"N"}
  BatchSizes = {}
  UnstashNs = {}
  HandlerIds = {}
  Kinds = {}
  Keys = {1}
  BadKeys = {}
  SrcOpts <- Opts_plain
  EvKinds = {"ps", "tick"}
  MaxBatch = 2
  Errnos = {}
  TbVals = {}
  TickVals = {0, 1, 2}
  Targets = {"A", "B"}
  SubTargets = {"A", "B"}
  AutoVals = {TRUE}
  SubOneshot = {FALSE}
  UdVals = {0}
  Senders = {"A"}
  QuitCodes = {1}
  ForeignOps = {}
  MaxRefs = 1
  MaxHeld = 0
  PoolSize = 16
  Setup = ""
INIT Init
NEXT Next
CHECK_DEADLOCK FALSE
INVARIANTS TypeOK C01_RunningCount C01_NoHandlerUnlessRunning C07_NoCtxNoModules C02_AutoFree C02_CopyAccounting C02_NoMailUnlessActive C13_ClearedOnStop C09_KeyedSet C09_DroppedOnStop C20_RegisteredOpen C18_TokensBounded
PROPERTIES C18_Accounting
