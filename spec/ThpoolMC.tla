------------------------------ MODULE ThpoolMC ------------------------------
(* constant definitions for the bounded configurations of Thpool.tla *)
EXTENDS Thpool
T_1x2 == 1 :> <<1, 2>>
T_1x3 == 1 :> <<1, 2, 3>>
T_2x21 == (1 :> <<1, 2>>) @@ (2 :> <<3>>)
T_2x32 == (1 :> <<1, 2, 3>>) @@ (2 :> <<4, 5>>)
F_none == [t \in 1..16 |-> 0]
F_1to3 == [t \in 1..16 |-> IF t = 1 THEN 3 ELSE 0]
F_12to34 == [t \in 1..16 |-> IF t = 1 THEN 3 ELSE IF t = 2 THEN 4 ELSE 0]
T_2x11 == (1 :> <<1>>) @@ (2 :> <<2>>)
=============================================================================
