\* bounded exhaustive configuration of Thpool.tla: N=2 Subs={1, 2} TaskOf=T_2x11 Lazy=TRUE Detached=TRUE WaitAll=FALSE
CONSTANTS
  N = 2
  Subs = {1, 2}
  TaskOf <- T_2x11
  Follow <- F_none
  Lazy = TRUE
  Detached = TRUE
  WaitAll = FALSE
INIT Init
NEXT Next
CHECK_DEADLOCK FALSE
INVARIANTS TypeOK Parallelism FreeSemantics NoTouchAfterFree DestroyOK LockHolderSane DeadlockFree
PROPERTIES ExactlyOnce NothingRunsAfterFree
