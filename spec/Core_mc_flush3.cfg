\* final flush x deregistration: a handler run by the flush of a stopping loop deregisters another module (the module table changes under the flush): the modules visited later still get what was pending for them (C02)
CONSTANTS
  Mods = {"A", "B", "C"}
  Order <- Order3
  Collide = FALSE
  Hooks <- Hooks_none3
  Flags <- Flags_none
  CtxPersist = TRUE
  Topics = {"t1"}
  Pats = {"t1"}
  MaxPay = 1
  Cap = 2
  MaxNest = 1
  Ops = {"CtxDeregister", "DropRef", "Dispatch", "CtxQuit", "Broadcast"}
  CbOps = {"ModDeregister"}
  EvalVals = {TRUE}
  Prios = {"N"}
  BatchSizes = {}
  UnstashNs = {}
  HandlerIds = {}
  Kinds = {}
  Keys = {1}
  BadKeys = {}
  SrcOpts = {}
  EvKinds = {"ps"}
  MaxBatch = 3
  Errnos = {}
  TbVals = {}
  TickVals = {}
  Targets = {"C"}
  SubTargets = {"A", "B", "C"}
  AutoVals = {TRUE}
  SubOneshot = {FALSE}
  UdVals = {0}
  Senders = {"C"}
  QuitCodes = {0, 1}
  ForeignOps = {}
  MaxRefs = 1
  MaxHeld = 0
  PoolSize = 16
  Setup = "loop3"
INIT Init
NEXT Next
CHECK_DEADLOCK FALSE
INVARIANTS TypeOK C01_RunningCount C01_NoHandlerUnlessRunning C07_NoCtxNoModules C02_AutoFree C02_CopyAccounting C02_NoMailUnlessActive
