------------------------------- MODULE CoreMC -------------------------------
(* constant definitions for the bounded configurations of Core.tla *)
EXTENDS Core
Order1 == <<"A">>
Hooks_none1 == ("A" :> {})
Opts_plain == {[os |-> FALSE, ac |-> FALSE, pr |-> "N"]}
Opts_lowprio == {[os |-> FALSE, ac |-> FALSE, pr |-> "N"], [os |-> FALSE, ac |-> FALSE, pr |-> "L"]}
Opts_osonly == {[os |-> TRUE, ac |-> FALSE, pr |-> "N"]}
Opts_os == {[os |-> FALSE, ac |-> FALSE, pr |-> "N"], [os |-> TRUE, ac |-> FALSE, pr |-> "N"]}
Opts_all == {[os |-> FALSE, ac |-> FALSE, pr |-> "N"], [os |-> TRUE, ac |-> FALSE, pr |-> "N"], [os |-> FALSE, ac |-> TRUE, pr |-> "N"]}
Tb_vals2 == {<<0, 0>>, <<2, 1>>, <<2, 2>>}
Tb_vals == {<<0, 0>>, <<1, 0>>, <<1, 1>>, <<1, 2>>}
Order2 == <<"A", "B">>
Order3 == <<"A", "B", "C">>
Order4 == <<"A", "B", "C", "D">>
Hooks_mix4 == ("A" :> {"stop"}) @@ ("B" :> {}) @@ ("C" :> {"start"}) @@ ("D" :> {})
Hooks_life == ("A" :> {"eval", "start", "stop"}) @@ ("B" :> {"stop"})
Hooks_none2 == ("A" :> {}) @@ ("B" :> {})
Hooks_none3 == ("A" :> {}) @@ ("B" :> {}) @@ ("C" :> {})
Hooks_pillcb == ("A" :> {}) @@ ("B" :> {"stop"})
Flags_none == [m \in Mods |-> <<{}>>]
Hooks_ps3 == ("A" :> {}) @@ ("B" :> {"stop"}) @@ ("C" :> {})
Hooks_sys == ("A" :> {"start"}) @@ ("B" :> {})
Hooks_tickh == ("A" :> {"start"}) @@ ("B" :> {"eval"})
Hooks_mix == ("A" :> {"eval", "start", "stop"}) @@ ("B" :> {"stop"}) @@ ("C" :> {})
Hooks_ctxn == ("A" :> {"stop"}) @@ ("B" :> {})
Flags_ctxn == ("A" :> <<{"REPLACE"}>>) @@ ("B" :> <<{}>>)
Flags_denypubB == ("A" :> <<{}>>) @@ ("B" :> <<{"DENYPUB"}>>)
Flags_denyctxA == ("A" :> <<{"DENYCTX"}>>) @@ ("B" :> <<{}>>)
Hooks_ctx == ("A" :> {"stop"}) @@ ("B" :> {"eval"})
\* C15: A may be replaced and is persistent; B is denied everything
Flags_perm == ("A" :> <<{"REPLACE", "PERSIST"}, {}>>) @@ ("B" :> <<{"DENYCTX", "DENYPUB", "DENYSUB"}>>)
Hooks_perm == ("A" :> {"start", "stop"}) @@ ("B" :> {"start", "stop"})
Flags_perm2 == ("A" :> <<{"REPLACE"}, {}>>) @@ ("B" :> <<{"DENYCTX"}>>)
=============================================================================
