------------------------------- MODULE CoreMC -------------------------------
(* constant definitions for the bounded configurations of Core.tla *)
EXTENDS Core
Order2 == <<"A", "B">>
Order3 == <<"A", "B", "C">>
Hooks_life == ("A" :> {"eval", "start", "stop"}) @@ ("B" :> {"stop"})
Hooks_none2 == ("A" :> {}) @@ ("B" :> {})
Hooks_none3 == ("A" :> {}) @@ ("B" :> {}) @@ ("C" :> {})
Flags_none == [m \in Mods |-> {}]
=============================================================================
