\* task sources (C03, C04, C20): a task registered on a RUNNING / PAUSED / STOPPED module, finishing before or after its module pauses, stops, is deregistered or the loop stops; the library must wait for a started task before its source goes away; tasks of two modules at once
CONSTANTS
  Mods = {"A", "B"}
  Order <- Order2
  Collide = FALSE
  Hooks <- Hooks_none2
  Flags <- Flags_none
  CtxPersist = TRUE
  Topics = {"t1"}
  Pats = {}
  MaxPay = 1
  Cap = 2
  MaxNest = 1
  Ops = {"CtxDeregister", "DropRef", "Dispatch", "CtxQuit", "SrcRegister", "SrcDeregister", "TaskFinish", "ModPause", "ModResume", "ModStop", "ModStart", "ModDeregister"}
  CbOps = {"ModStop", "SrcRegister", "ModPause"}
  EvalVals = {TRUE}
  Prios = {"N"}
  BatchSizes = {}
  UnstashNs = {}
  HandlerIds = {}
  Kinds = {"task"}
  Keys = {1}
  BadKeys = {}
  SrcOpts <- Opts_plain
  EvKinds = {"task"}
  MaxBatch = 2
  Errnos = {}
  TbVals = {}
  TickVals = {}
  Targets = {"A", "B"}
  SubTargets = {"A", "B"}
  AutoVals = {}
  SubOneshot = {FALSE}
  UdVals = {0}
  Senders = {}
  QuitCodes = {1}
  ForeignOps = {}
  MaxRefs = 1
  MaxHeld = 0
  PoolSize = 16
  Setup = "loop2"
INIT Init
NEXT Next
CHECK_DEADLOCK FALSE
INVARIANTS TypeOK C01_RunningCount C01_NoHandlerUnlessRunning C07_NoCtxNoModules C02_AutoFree C02_CopyAccounting C02_NoMailUnlessActive C13_ClearedOnStop C09_KeyedSet C09_DroppedOnStop C20_RegisteredOpen C04_NoOrphanTask C03_PendingHasSource
