\* trace validation of the map across table growth: HasDtor=FALSE AllowUpdate=TRUE DupKeys=FALSE
CONSTANTS
  Keys = {}
  Vals <- ValsSmall
  DupKeys = FALSE
  AllowUpdate = TRUE
  HasDtor = FALSE
INIT TInit
NEXT TNext
CHECK_DEADLOCK FALSE
INVARIANTS Dictionary DtorOnlyIfConfigured
POSTCONDITION Accepted
