\* bounded exhaustive configuration of Seqs.tla: Kind=stack HasDtor=TRUE HasCmp=FALSE
CONSTANTS
  Kind = "stack"
  Elems = {1, 2, 3}
  MaxLen = 3
  HasDtor = TRUE
  HasCmp = FALSE
  CmpSucc = FALSE
INIT Init
NEXT Next
CHECK_DEADLOCK FALSE
INVARIANTS TypeOK Conservation DtorOnlyIfConfigured IteratorVisitsOnce CursorInRange
PROPERTIES Fifo Lifo RelOrder
