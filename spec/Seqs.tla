------------------------------- MODULE Seqs -------------------------------
(* Queue, stack and list of libmodule (Lib/structs/{queue,stack,list}.c) as one abstract
   sequence machine, parameterised by Kind.  `items` is the content in *container order*:
   the order in which the callback iteration and the iterators visit it (queue: oldest first,
   stack: newest first, list: head first).

   Mechanism = the actions.  Monitors = the invariants at the end (C12).
   obs = <<ret, out...>> is the expected return value / outputs of the step just taken.     *)
EXTENDS Integers, Sequences, FiniteSets, TLC

CONSTANTS Kind,       \* "queue" | "stack" | "list"
          Elems,      \* element ids (positive integers)
          MaxLen,     \* bound on the content length
          HasDtor,    \* container created with an element destructor
          HasCmp,     \* list created with a comparator (elements e, f compare equal iff KeyOf(e) = KeyOf(f))
          CmpSucc     \* ... a comparator that is not reflexive: the searched datum d matches the elements x with KeyOf(x) = KeyOf(d) + 1
                      \* (removal / search by pointer must still work: "matching the comparator or the pointer")

VARIABLES items, it, fate, obs,
          vis, bad       \* ghost: elements designated by the cursor in this iterator session; monitor flag

vars == <<items, it, fate, obs, vis, bad>>

KeyOf(e) == (e + 1) \div 2          \* 1~2, 3~4, ...
NEG == -1                           \* any negative return value (the exact errno is not fixed by C12)

NoIt == [on |-> FALSE, pos |-> 0, rm |-> FALSE, diff |-> 0, ins |-> FALSE]
Range(s) == {s[i] : i \in 1..Len(s)}
RemoveAt(s, i) == SubSeq(s, 1, i - 1) \o SubSeq(s, i + 1, Len(s))
InsertAt(s, i, e) == SubSeq(s, 1, i - 1) \o <<e>> \o SubSeq(s, i, Len(s))
Gone == IF HasDtor THEN "dead" ELSE "out"     \* fate of an element dropped by remove/clear/free
Min(a, b) == IF a < b THEN a ELSE b

Init == /\ items = <<>>
        /\ it = NoIt
        /\ fate = [e \in Elems |-> "out"]
        /\ obs = <<0>>
        /\ vis = {}
        /\ bad = FALSE

Mut == ~it.on        \* precondition: the container is not mutated behind a live iterator's back
IsList == Kind = "list"

(* ---- plain operations ---- *)

\* queue: enqueue at the tail; stack: push on top
Add(e) == /\ Kind \in {"queue", "stack"} /\ Mut
          /\ fate[e] = "out" /\ Len(items) < MaxLen
          /\ items' = IF Kind = "queue" THEN Append(items, e) ELSE <<e>> \o items
          /\ fate' = [fate EXCEPT ![e] = "in"]
          /\ obs' = <<0>>
          /\ UNCHANGED <<it, vis, bad>>

\* list: the position of a plain insert is not fixed by the property -> every position is allowed
\* (the code: at the head without comparator, before the first equal element or at the tail with one)
Insert(e, p) == /\ IsList /\ Mut
                /\ fate[e] = "out" /\ Len(items) < MaxLen /\ p \in 1..(Len(items) + 1)
                /\ items' = InsertAt(items, p, e)
                /\ fate' = [fate EXCEPT ![e] = "in"]
                /\ obs' = <<0>>
                /\ UNCHANGED <<it, vis, bad>>

\* dequeue / pop: hand the first element (container order) back to the caller, no destructor
Take == /\ Kind \in {"queue", "stack"} /\ Mut
        /\ IF items = <<>>
             THEN obs' = <<0>> /\ UNCHANGED <<items, fate>>
             ELSE /\ obs' = <<Head(items)>>
                  /\ items' = Tail(items)
                  /\ fate' = [fate EXCEPT ![Head(items)] = "out"]
        /\ UNCHANGED <<it, vis, bad>>

Peek == /\ Kind \in {"queue", "stack"}
        /\ obs' = <<IF items = <<>> THEN 0 ELSE Head(items)>>
        /\ UNCHANGED <<items, it, fate, vis, bad>>

\* remove: drop the first element through the destructor
Remove == /\ Kind \in {"queue", "stack"} /\ Mut
          /\ IF items = <<>>
               THEN obs' = <<NEG>> /\ UNCHANGED <<items, fate>>
               ELSE /\ obs' = <<0>>
                    /\ items' = Tail(items)
                    /\ fate' = [fate EXCEPT ![Head(items)] = Gone]
          /\ UNCHANGED <<it, vis, bad>>

Match(d, x) == (d = x) \/ (HasCmp /\ IF CmpSucc THEN KeyOf(x) = KeyOf(d) + 1 ELSE KeyOf(d) = KeyOf(x))
FirstMatch(d) == IF \E i \in 1..Len(items) : Match(d, items[i])
                   THEN CHOOSE i \in 1..Len(items) : Match(d, items[i]) /\ \A j \in 1..(i - 1) : ~Match(d, items[j])
                   ELSE 0

\* list: remove the first element matching the comparator or the pointer
RemoveKey(d) == /\ IsList /\ Mut /\ fate[d] # "dead"
                /\ LET i == FirstMatch(d) IN
                   IF i = 0
                     THEN obs' = <<NEG>> /\ UNCHANGED <<items, fate>>
                     ELSE /\ obs' = <<0>>
                          /\ items' = RemoveAt(items, i)
                          /\ fate' = [fate EXCEPT ![items[i]] = Gone]
                /\ UNCHANGED <<it, vis, bad>>

Find(d) == /\ IsList /\ fate[d] # "dead"
           /\ LET i == FirstMatch(d) IN obs' = <<IF i = 0 THEN 0 ELSE items[i]>>
           /\ UNCHANGED <<items, it, fate, vis, bad>>

\* clear: every element goes through the destructor (return value on an empty container is not fixed)
Clear == /\ Mut
         /\ items' = <<>>
         /\ fate' = [e \in Elems |-> IF fate[e] = "in" THEN Gone ELSE fate[e]]
         /\ obs' = <<0>>
         /\ UNCHANGED <<it, vis, bad>>

\* free the container (clears it) and create a fresh one, so that histories continue
FreeNew == /\ Mut
           /\ items' = <<>>
           /\ fate' = [e \in Elems |-> IF fate[e] = "in" THEN Gone ELSE fate[e]]
           /\ obs' = <<0>>
           /\ UNCHANGED <<it, vis, bad>>

\* callback iteration: visits in container order; the callback stops at the k-th element
\* (k = 0: never) with a positive (ret 0) or negative (ret < 0) value
Iterate(k, neg) == /\ items # <<>>
                   /\ k \in 0..MaxLen /\ (k = 0 => ~neg)
                   /\ LET n == IF k = 0 THEN Len(items) ELSE Min(k, Len(items))
                          stopped == k # 0 /\ k <= Len(items)
                      IN obs' = <<IF stopped /\ neg THEN NEG ELSE 0>> \o SubSeq(items, 1, n)
                   /\ UNCHANGED <<items, it, fate, vis, bad>>

(* ---- iterators ---- *)

\* monitor bookkeeping: the cursor now designates element x
Visit(x) == /\ vis' = vis \cup {x}
            /\ bad' = (bad \/ (x \in vis /\ ~it.ins))

ItrNew == /\ ~it.on
          /\ IF items = <<>>
               THEN obs' = <<0>> /\ UNCHANGED <<it, vis, bad>>
               ELSE /\ obs' = <<1>>
                    /\ it' = [on |-> TRUE, pos |-> 1, rm |-> FALSE, diff |-> 0, ins |-> FALSE]
                    /\ vis' = {items[1]} /\ bad' = bad
          /\ UNCHANGED <<items, fate>>

\* queue/stack: after a removal the cursor already designates the following element
\* list: diff < 0 plays the same role
ItrNext == /\ it.on
           /\ LET stay == IF IsList THEN (it.pos > Len(items) \/ it.diff < 0) ELSE it.rm
                  p == IF stay THEN it.pos ELSE it.pos + 1
              IN IF p > Len(items)
                   THEN /\ it' = NoIt
                        /\ vis' = {}
                        \* monitor: at the natural end every remaining element was designated
                        /\ bad' = (bad \/ (~it.ins /\ ~(Range(items) \subseteq vis)))
                   ELSE /\ it' = [it EXCEPT !.pos = p, !.rm = FALSE, !.diff = 0]
                        /\ vis' = vis \cup {items[p]}
                        /\ bad' = (bad \/ (items[p] \in vis /\ ~it.ins))
           /\ obs' = <<0>>
           /\ UNCHANGED <<items, fate>>

\* cursor designates an element.  After a removal through a list iterator the cursor designates the element that followed the
\* removed one (it can be read, replaced or removed as well, before the next ItrNext, which then stays where it is); queue and
\* stack iterators designate nothing until ItrNext
Usable == it.on /\ it.pos <= Len(items) /\ (IF IsList THEN TRUE ELSE ~it.rm)

ItrGet == /\ Usable
          /\ obs' = <<items[it.pos]>>
          /\ UNCHANGED <<items, it, fate, vis, bad>>

\* replace the current element; the old one goes back to the caller (no destructor)
ItrSet(e) == /\ Usable /\ fate[e] = "out"
             /\ items' = [items EXCEPT ![it.pos] = e]
             /\ fate' = [fate EXCEPT ![items[it.pos]] = "out", ![e] = "in"]
             /\ obs' = <<0>>
             \* (monitor bookkeeping: the element taken out may come back later as a new element; the one put in counts as designated
             \* unless the cursor only got here through a removal - then the coming ItrNext stays and designates it)
             /\ vis' = IF IsList /\ it.diff < 0 THEN vis \ {items[it.pos]} ELSE (vis \ {items[it.pos]}) \cup {e}
             /\ UNCHANGED <<it, bad>>

ItrRemove == /\ Usable
             /\ items' = RemoveAt(items, it.pos)
             /\ fate' = [fate EXCEPT ![items[it.pos]] = Gone]
             /\ it' = IF IsList THEN [it EXCEPT !.diff = it.diff - 1] ELSE [it EXCEPT !.rm = TRUE]
             /\ obs' = <<0>>
             /\ vis' = vis \ {items[it.pos]}
             /\ UNCHANGED bad

\* list only: insert at the cursor; the cursor then designates the new element
ItrInsert(e) == /\ IsList /\ it.on /\ it.diff <= 0 /\ fate[e] = "out" /\ Len(items) < MaxLen
                /\ items' = InsertAt(items, it.pos, e)
                /\ fate' = [fate EXCEPT ![e] = "in"]
                /\ it' = [it EXCEPT !.diff = it.diff + 1, !.ins = TRUE]
                /\ obs' = <<0>>
                /\ UNCHANGED <<vis, bad>>

\* the user abandons the iterator (releases it with the allocator's free)
ItrDrop == /\ it.on
           /\ it' = NoIt
           /\ vis' = {}
           /\ obs' = <<0>>
           /\ UNCHANGED <<items, fate, bad>>

Next == \/ \E e \in Elems : Add(e) \/ ItrSet(e) \/ ItrInsert(e) \/ RemoveKey(e) \/ Find(e)
        \/ \E e \in Elems, p \in 1..(MaxLen + 1) : Insert(e, p)
        \/ Take \/ Peek \/ Remove \/ Clear \/ FreeNew
        \/ \E k \in 0..MaxLen, neg \in BOOLEAN : Iterate(k, neg)
        \/ ItrNew \/ ItrNext \/ ItrGet \/ ItrRemove \/ ItrDrop

Spec == Init /\ [][Next]_vars

(* ------------------------------- monitors (C12) ------------------------------- *)

TypeOK == /\ items \in Seq(Elems) /\ Len(items) <= MaxLen
          /\ fate \in [Elems -> {"out", "in", "dead"}]
          /\ it.on \in BOOLEAN

\* the container holds exactly the inserted-and-not-removed elements, each once
Conservation == /\ \A e \in Elems : (fate[e] = "in") <=> (e \in Range(items))
                /\ \A i, j \in 1..Len(items) : i # j => items[i] # items[j]

\* destructor only with a destructor configured (dead = destructor ran once; checked against the real count by the driver)
DtorOnlyIfConfigured == \A e \in Elems : fate[e] = "dead" => HasDtor

\* iterators visit every remaining element exactly once (sessions without iterator-insert)
IteratorVisitsOnce == ~bad

\* a live cursor always designates a position inside the container or just past its end
CursorInRange == it.on => it.pos \in 1..(Len(items) + 1)

\* order discipline, as action properties
Fifo == [][(Kind = "queue" /\ Len(items') = Len(items) + 1 /\ ~it.on) => (SubSeq(items', 1, Len(items)) = items)]_vars
Lifo == [][(Kind = "stack" /\ Len(items') = Len(items) + 1 /\ ~it.on) => (Tail(items') = items)]_vars
\* elements not touched keep their relative order
RelOrder == [][\A a, b \in Range(items) \cap Range(items') :
                 LET ia == CHOOSE i \in 1..Len(items) : items[i] = a
                     ib == CHOOSE i \in 1..Len(items) : items[i] = b
                     ja == CHOOSE i \in 1..Len(items') : items'[i] = a
                     jb == CHOOSE i \in 1..Len(items') : items'[i] = b
                 IN (ia < ib) <=> (ja < jb)]_vars
=============================================================================
