\* bounded exhaustive configuration of MapAbs.tla: HasDtor=TRUE AllowUpdate=FALSE DupKeys=TRUE
CONSTANTS
  Keys = {"a", "b", "c"}
  Vals = {1, 2, 3}
  DupKeys = TRUE
  AllowUpdate = FALSE
  HasDtor = TRUE
INIT Init
NEXT Next
CHECK_DEADLOCK FALSE
INVARIANTS TypeOK Dictionary DtorOnlyIfConfigured
PROPERTIES DtorDiscipline RefusedPutNoEffect
