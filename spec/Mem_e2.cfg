\* replay (graph-dump) configuration of Mem.tla
CONSTANTS
  Blocks = {1, 2, 3}
  Sizes = {5}
  MaxRefs = 3
INIT Init
NEXT Next
CHECK_DEADLOCK FALSE
INVARIANTS TypeOK AliveIffReferenced RefAccounting StepDiscipline
PROPERTIES DiesOnlyAtLastUnref
