\* names / flags focus (C15): replaceable + persistent A, fully denied B, restricted calls from callbacks at nesting depth 2
CONSTANTS
  Mods = {"A", "B"}
  Order <- Order2
  Collide = FALSE
  Hooks <- Hooks_perm
  Flags <- Flags_perm
  CtxPersist = FALSE
  Topics = {"t1"}
  Pats = {"t1"}
  MaxPay = 1
  Cap = 2
  MaxNest = 2
  Ops = {"CtxRegister", "CtxDeregister", "Dispatch", "ModRegister", "ModStart", "DropRef", "CtxFinalize", "CtxQuit", "ModDeregister", "ModStop", "Tell", "Publish", "PublishSys", "Broadcast", "Pill", "Subscribe", "Unsubscribe"}
  CbOps = {"CtxQuit", "CtxFinalize", "ModStart", "ModRegister"}
  EvalVals = {TRUE}
  Prios = {"N"}
  BatchSizes = {}
  UnstashNs = {}
  HandlerIds = {}
  Kinds = {}
  Keys = {1}
  BadKeys = {}
  SrcOpts = {}
  EvKinds = {"ps"}
  MaxBatch = 3
  Errnos = {}
  TbVals = {}
  TickVals = {}
  Targets = {"A", "B"}
  SubTargets = {"A", "B"}
  AutoVals = {TRUE, FALSE}
  SubOneshot = {FALSE}
  UdVals = {0}
  Senders = {"A", "B"}
  QuitCodes = {0, 1}
  ForeignOps = {}
  MaxRefs = 1
  MaxHeld = 0
  PoolSize = 16
  Setup = ""
INIT Init
NEXT Next
CHECK_DEADLOCK FALSE
INVARIANTS TypeOK C01_RunningCount C01_NoHandlerUnlessRunning C07_NoCtxNoModules C02_AutoFree C02_CopyAccounting C02_NoMailUnlessActive 
PROPERTIES C07_NoJoinAfterFinalize
