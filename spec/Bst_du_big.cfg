\* sampled (TLC simulation mode), 8 elements: configuration of Bst.tla: HasDtor=TRUE UserCmp=TRUE
CONSTANTS
  Elems = {1, 2, 3, 4, 5, 6, 7, 8}
  HasDtor = TRUE
  UserCmp = TRUE
INIT Init
NEXT Next
CHECK_DEADLOCK FALSE
INVARIANTS TypeOK SetSemantics DtorOnlyIfConfigured IteratorVisitsOnceAscending
PROPERTIES RightTarget
