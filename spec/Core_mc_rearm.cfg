\* a handler pauses and resumes (re-arms) a module whose timer / descriptor events come later in the same poll batch of up to 3 events (C03): what the re-armed sources had pending is gone, every other event of the batch is still delivered
CONSTANTS
  Mods = {"A", "B"}
  Order <- Order2
  Collide = FALSE
  Hooks <- Hooks_none2
  Flags <- Flags_none
  CtxPersist = TRUE
  Topics = {"t1"}
  Pats = {}
  MaxPay = 1
  Cap = 2
  MaxNest = 1
  Ops = {"CtxDeregister", "DropRef", "Dispatch", "CtxQuit", "SrcRegister", "FdReady", "TmrFire", "Tell"}
  CbOps = {"ModPause", "ModResume"}
  EvalVals = {TRUE}
  Prios = {"N"}
  BatchSizes = {}
  UnstashNs = {}
  HandlerIds = {}
  Kinds = {"fd", "tmr"}
  Keys = {1}
  BadKeys = {}
  SrcOpts <- Opts_osonly
  EvKinds = {"ps", "fd", "tmr"}
  MaxBatch = 3
  Errnos = {}
  TbVals = {}
  TickVals = {}
  Targets = {"A", "B"}
  SubTargets = {"A"}
  AutoVals = {FALSE}
  SubOneshot = {FALSE}
  UdVals = {0}
  Senders = {"B"}
  QuitCodes = {1}
  ForeignOps = {}
  MaxRefs = 1
  MaxHeld = 0
  PoolSize = 16
  Setup = "loop2"
INIT Init
NEXT Next
CHECK_DEADLOCK FALSE
INVARIANTS TypeOK C01_RunningCount C01_NoHandlerUnlessRunning C07_NoCtxNoModules C02_AutoFree C02_CopyAccounting C02_NoMailUnlessActive C13_ClearedOnStop C09_KeyedSet C09_DroppedOnStop C20_RegisteredOpen
