\* system notifications through a regular-expression subscription, one-shot or not (C19, C03): exactly one notification per transition while subscribed; a one-shot subscription ends with its first notification
CONSTANTS
  Mods = {"A", "B"}
  Order <- Order2
  Collide = FALSE
  Hooks <- Hooks_none2
  Flags <- Flags_denypubB
  CtxPersist = TRUE
  Topics = {"t1"}
  Pats = {"MOD_ST."}
  MaxPay = 1
  Cap = 2
  MaxNest = 1
  Ops = {"CtxDeregister", "DropRef", "Dispatch", "CtxQuit", "ModPause", "ModResume", "ModStop", "ModStart", "Subscribe", "Unsubscribe"}
  CbOps = {}
  EvalVals = {TRUE}
  Prios = {"N"}
  BatchSizes = {}
  UnstashNs = {}
  HandlerIds = {}
  Kinds = {}
  Keys = {1}
  BadKeys = {}
  SrcOpts = {}
  EvKinds = {"ps"}
  MaxBatch = 1
  Errnos = {}
  TbVals = {}
  TickVals = {}
  Targets = {"A", "B"}
  SubTargets = {"A"}
  AutoVals = {}
  SubOneshot = {FALSE, TRUE}
  UdVals = {0}
  Senders = {"A", "B"}
  QuitCodes = {1}
  ForeignOps = {}
  MaxRefs = 1
  MaxHeld = 0
  PoolSize = 16
  Setup = "loop2"
INIT Init
NEXT Next
CHECK_DEADLOCK FALSE
INVARIANTS TypeOK C01_RunningCount C01_NoHandlerUnlessRunning C07_NoCtxNoModules C02_AutoFree C02_CopyAccounting C02_NoMailUnlessActive
