\* bounded exhaustive configuration of Bst.tla: HasDtor=TRUE UserCmp=FALSE
CONSTANTS
  Elems = {1, 2, 3, 4, 5}
  HasDtor = TRUE
  UserCmp = FALSE
INIT Init
NEXT Next
CHECK_DEADLOCK FALSE
INVARIANTS TypeOK SetSemantics DtorOnlyIfConfigured IteratorVisitsOnceAscending
PROPERTIES RightTarget
