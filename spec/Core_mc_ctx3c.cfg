\* three module names sharing one bucket of the context table (C01, C07, C05): registrations and deregistrations in every order (the chain closes up behind a removed entry), teardown and evaluation passes over the chain, deregistrations from a stop callback during them
CONSTANTS
  Mods = {"A", "B", "C"}
  Order <- Order3
  Collide = TRUE
  Hooks <- Hooks_ps3
  Flags <- Flags_none
  CtxPersist = FALSE
  Topics = {"t1"}
  Pats = {"t1"}
  MaxPay = 1
  Cap = 2
  MaxNest = 1
  Ops = {"CtxRegister", "CtxDeregister", "Dispatch", "CtxQuit", "ModRegister", "ModDeregister", "ModStart", "DropRef"}
  CbOps = {"ModDeregister"}
  EvalVals = {TRUE, FALSE}
  Prios = {"N"}
  BatchSizes = {}
  UnstashNs = {}
  HandlerIds = {}
  Kinds = {}
  Keys = {1}
  BadKeys = {}
  SrcOpts = {}
  EvKinds = {"ps"}
  MaxBatch = 3
  Errnos = {}
  TbVals = {}
  TickVals = {}
  Targets = {"A", "B", "C"}
  SubTargets = {}
  AutoVals = {TRUE, FALSE}
  SubOneshot = {FALSE}
  UdVals = {0}
  Senders = {}
  QuitCodes = {0, 1}
  ForeignOps = {}
  MaxRefs = 1
  MaxHeld = 0
  PoolSize = 16
  Setup = ""
INIT Init
NEXT Next
CHECK_DEADLOCK FALSE
INVARIANTS TypeOK C01_RunningCount C01_NoHandlerUnlessRunning C07_NoCtxNoModules C02_CopyAccounting C02_NoMailUnlessActive
PROPERTIES C07_NoJoinAfterFinalize
