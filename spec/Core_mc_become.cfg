\* become / unbecome (C17): set-up = 2 RUNNING modules in a started loop; handler stack changed from outside and from inside handlers, deliveries, stash replay, stop/start
CONSTANTS
  Mods = {"A", "B"}
  Order <- Order2
  Collide = FALSE
  Hooks <- Hooks_none2
  Flags <- Flags_none
  CtxPersist = TRUE
  Topics = {"t1"}
  Pats = {}
  MaxPay = 1
  Cap = 2
  MaxNest = 1
  Ops = {"CtxDeregister", "DropRef", "Dispatch", "CtxQuit", "ModStop", "ModStart", "ModPause", "ModResume", "Tell", "Become", "Unbecome", "Unstash"}
  CbOps = {"Become", "Unbecome", "Stash", "ModStop"}
  EvalVals = {TRUE}
  Prios = {"N"}
  BatchSizes = {}
  UnstashNs = {1}
  HandlerIds = {1, 2}
  Kinds = {}
  Keys = {1}
  BadKeys = {}
  SrcOpts = {}
  EvKinds = {"ps"}
  MaxBatch = 3
  Errnos = {}
  TbVals = {}
  TickVals = {}
  Targets = {"A"}
  SubTargets = {"A"}
  AutoVals = {TRUE, FALSE}
  SubOneshot = {FALSE}
  UdVals = {0}
  Senders = {"B"}
  QuitCodes = {1}
  ForeignOps = {}
  MaxRefs = 1
  MaxHeld = 0
  PoolSize = 16
  Setup = "loop2"
INIT Init
NEXT Next
CHECK_DEADLOCK FALSE
INVARIANTS TypeOK C01_RunningCount C01_NoHandlerUnlessRunning C07_NoCtxNoModules C02_AutoFree C02_CopyAccounting C02_NoMailUnlessActive C13_ClearedOnStop C13_HeldBackForAReason C16_NoHighStashed
