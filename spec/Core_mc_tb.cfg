\* token bucket (C18): set-up = 2 RUNNING modules; A gets buckets (rate, burst) in {off, (r,0), (r,1), (r,2)}; every kind of rate-limited call (state changes, sends, subscriptions, handlers, batch size, sources), refill ticks, stop / start
CONSTANTS
  Mods = {"A", "B"}
  Order <- Order2
  Collide = FALSE
  Hooks <- Hooks_none2
  Flags <- Flags_none
  CtxPersist = TRUE
  Topics = {"t1"}
  Pats = {"t1"}
  MaxPay = 1
  Cap = 2
  MaxNest = 1
  Ops = {"CtxDeregister", "DropRef", "Dispatch", "CtxQuit", "SetTokenBucket", "TbTick", "ModPause", "ModResume", "ModStop", "ModStart", "Tell", "Subscribe", "Unsubscribe", "Become", "Unbecome", "SetBatchSize", "SrcRegister", "SrcDeregister"}
  CbOps = {"Tell"}
  EvalVals = {TRUE}
  Prios = {"N"}
  BatchSizes = {2}
  UnstashNs = {}
  HandlerIds = {1}
  Kinds = {"tmr"}
  Keys = {1}
  BadKeys = {}
  SrcOpts <- Opts_plain
  EvKinds = {"ps", "tb"}
  MaxBatch = 2
  Errnos = {}
  TbVals <- Tb_vals
  TickVals = {}
  Targets = {"A"}
  SubTargets = {"A"}
  AutoVals = {TRUE}
  SubOneshot = {FALSE}
  UdVals = {0}
  Senders = {"A"}
  QuitCodes = {1}
  ForeignOps = {}
  MaxRefs = 1
  MaxHeld = 0
  PoolSize = 16
  Setup = "loop2"
INIT Init
NEXT Next
CHECK_DEADLOCK FALSE
INVARIANTS TypeOK C01_RunningCount C01_NoHandlerUnlessRunning C07_NoCtxNoModules C02_AutoFree C02_CopyAccounting C02_NoMailUnlessActive C13_ClearedOnStop C09_KeyedSet C09_DroppedOnStop C20_RegisteredOpen C18_TokensBounded
PROPERTIES C18_Accounting
