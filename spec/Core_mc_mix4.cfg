\* pub/sub fan-out among 4 modules, sampled (TLC simulation mode): literal / regular-expression / one-shot subscriptions with priorities, tell / publish / broadcast / pill with up to 4 payloads in flight, mailbox capacity 3, batches of 3, pause / stop / deregistration and re-registration of recipients and senders with messages in flight, stash and become
CONSTANTS
  Mods = {"A", "B", "C", "D"}
  Order <- Order4
  Collide = FALSE
  Hooks <- Hooks_mix4
  Flags <- Flags_none
  CtxPersist = TRUE
  Topics = {"t1"}
  Pats = {"t1", "t.", "MOD_ST."}
  MaxPay = 4
  Cap = 3
  MaxNest = 1
  Ops = {"CtxDeregister", "CtxQuit", "Dispatch", "ModRegister", "ModDeregister", "ModStart", "ModPause", "ModResume", "ModStop", "DropRef", "RefMod", "Tell", "Publish", "Broadcast", "Pill", "Subscribe", "Unsubscribe", "SetBatchSize", "Unstash", "Become", "Unbecome", "ReleaseEvt"}
  CbOps = {"ModPause", "ModStop", "ModDeregister", "CtxQuit", "Tell", "Publish", "Broadcast", "Pill", "Subscribe", "Unsubscribe", "Stash", "Unstash", "Become", "RetainEvt"}
  EvalVals = {TRUE, FALSE}
  Prios = {"L", "N", "H"}
  BatchSizes = {0, 2}
  UnstashNs = {1, 9}
  HandlerIds = {1, 2}
  Kinds = {}
  Keys = {1}
  BadKeys = {}
  SrcOpts = {}
  EvKinds = {"ps"}
  MaxBatch = 3
  Errnos = {}
  TbVals = {}
  TickVals = {}
  Targets = {"A", "B", "C", "D"}
  SubTargets = {"A", "B", "C", "D"}
  AutoVals = {TRUE, FALSE}
  SubOneshot = {FALSE, TRUE}
  UdVals = {0}
  Senders = {"A", "B", "C", "D"}
  QuitCodes = {1}
  ForeignOps = {}
  MaxRefs = 2
  MaxHeld = 1
  PoolSize = 16
  Setup = "loop4"
INIT Init
NEXT Next
CHECK_DEADLOCK FALSE
CONSTRAINT BqBound
INVARIANTS TypeOK C01_RunningCount C01_NoHandlerUnlessRunning C07_NoCtxNoModules C02_AutoFree C02_CopyAccounting C02_NoMailUnlessActive C13_ClearedOnStop C09_KeyedSet C09_DroppedOnStop C20_RegisteredOpen C04_NoOrphanTask C03_PendingHasSource C18_TokensBounded C16_NoHighStashed C04_ObjectLifetime
