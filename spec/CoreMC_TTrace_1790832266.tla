---- MODULE CoreMC_TTrace_1790832266 ----
EXTENDS Sequences, TLCExt, CoreMC, Toolbox, Naturals, TLC

_expression ==
    LET CoreMC_TEExpression == INSTANCE CoreMC_TEExpression
    IN CoreMC_TEExpression!expression
----

_trace ==
    LET CoreMC_TETrace == INSTANCE CoreMC_TETrace
    IN CoreMC_TETrace!trace
----

_inv ==
    ~(
        TLCGet("level") = Len(_TETrace)
        /\
        S = ([stack |-> <<>>, ret |-> 0, mod |-> [A |-> [reg |-> TRUE, st |-> "running", old |-> FALSE, fl |-> {}, src |-> {[os |-> FALSE, ac |-> FALSE, k |-> "fd", key |-> 1]}, pipe |-> <<>>, subs |-> {}, bq |-> <<>>, blen |-> 0, stash |-> <<>>, hs |-> <<>>], B |-> [reg |-> TRUE, st |-> "stopped", old |-> FALSE, fl |-> {}, src |-> {}, pipe |-> <<>>, subs |-> {}, bq |-> <<>>, blen |-> 0, stash |-> <<>>, hs |-> <<>>]], ctx |-> [st |-> "looping", quit |-> TRUE, qcode |-> 1, fin |-> FALSE], run |-> 1, cur |-> "", pay |-> <<[st |-> "unused", copies |-> 0, auto |-> FALSE]>>, rdy |-> {}, due |-> {}, ufd |-> <<"closed">>, errno |-> 0])
    )
----

_init ==
    /\ S = _TETrace[1].S
----

_next ==
    /\ \E i,j \in DOMAIN _TETrace:
        /\ \/ /\ j = i + 1
              /\ i = TLCGet("level")
        /\ S  = _TETrace[i].S
        /\ S' = _TETrace[j].S

\* Uncomment the ASSUME below to write the states of the error trace
\* to the given file in Json format. Note that you can pass any tuple
\* to `JsonSerialize`. For example, a sub-sequence of _TETrace.
    \* ASSUME
    \*     LET J == INSTANCE Json
    \*         IN J!JsonSerialize("CoreMC_TTrace_1790832266.json", _TETrace)

=============================================================================

 Note that you can extract this module `CoreMC_TEExpression`
  to a dedicated file to reuse `expression` (the module in the 
  dedicated `CoreMC_TEExpression.tla` file takes precedence 
  over the module `CoreMC_TEExpression` below).

---- MODULE CoreMC_TEExpression ----
EXTENDS Sequences, TLCExt, CoreMC, Toolbox, Naturals, TLC

expression == 
    [
        \* To hide variables of the `CoreMC` spec from the error trace,
        \* remove the variables below.  The trace will be written in the order
        \* of the fields of this record.
        S |-> S
        
        \* Put additional constant-, state-, and action-level expressions here:
        \* ,_stateNumber |-> _TEPosition
        \* ,_SUnchanged |-> S = S'
        
        \* Format the `S` variable as Json value.
        \* ,_SJson |->
        \*     LET J == INSTANCE Json
        \*     IN J!ToJson(S)
        
        \* Lastly, you may build expressions over arbitrary sets of states by
        \* leveraging the _TETrace operator.  For example, this is how to
        \* count the number of times a spec variable changed up to the current
        \* state in the trace.
        \* ,_SModCount |->
        \*     LET F[s \in DOMAIN _TETrace] ==
        \*         IF s = 1 THEN 0
        \*         ELSE IF _TETrace[s].S # _TETrace[s-1].S
        \*             THEN 1 + F[s-1] ELSE F[s-1]
        \*     IN F[_TEPosition - 1]
    ]

=============================================================================



Parsing and semantic processing can take forever if the trace below is long.
 In this case, it is advised to uncomment the module below to deserialize the
 trace from a generated binary file.

\*
\*---- MODULE CoreMC_TETrace ----
\*EXTENDS IOUtils, CoreMC, TLC
\*
\*trace == IODeserialize("CoreMC_TTrace_1790832266.bin", TRUE)
\*
\*=============================================================================
\*

---- MODULE CoreMC_TETrace ----
EXTENDS CoreMC, TLC

trace == 
    <<
    ([S |-> [stack |-> <<>>, ret |-> 0, mod |-> [A |-> [reg |-> TRUE, st |-> "running", old |-> FALSE, fl |-> {}, src |-> {}, pipe |-> <<>>, subs |-> {}, bq |-> <<>>, blen |-> 0, stash |-> <<>>, hs |-> <<>>], B |-> [reg |-> TRUE, st |-> "running", old |-> FALSE, fl |-> {}, src |-> {}, pipe |-> <<>>, subs |-> {}, bq |-> <<>>, blen |-> 0, stash |-> <<>>, hs |-> <<>>]], ctx |-> [st |-> "looping", quit |-> FALSE, qcode |-> 0, fin |-> FALSE], run |-> 2, cur |-> "", pay |-> <<[st |-> "unused", copies |-> 0, auto |-> FALSE]>>, rdy |-> {}, due |-> {}, ufd |-> <<"open">>, errno |-> 0]]),
    ([S |-> [stack |-> <<>>, ret |-> 0, mod |-> [A |-> [reg |-> TRUE, st |-> "running", old |-> FALSE, fl |-> {}, src |-> {}, pipe |-> <<>>, subs |-> {}, bq |-> <<>>, blen |-> 0, stash |-> <<>>, hs |-> <<>>], B |-> [reg |-> TRUE, st |-> "running", old |-> FALSE, fl |-> {}, src |-> {}, pipe |-> <<>>, subs |-> {}, bq |-> <<>>, blen |-> 0, stash |-> <<>>, hs |-> <<>>]], ctx |-> [st |-> "looping", quit |-> TRUE, qcode |-> 1, fin |-> FALSE], run |-> 2, cur |-> "", pay |-> <<[st |-> "unused", copies |-> 0, auto |-> FALSE]>>, rdy |-> {}, due |-> {}, ufd |-> <<"open">>, errno |-> 0]]),
    ([S |-> [stack |-> <<>>, ret |-> -1, mod |-> [A |-> [reg |-> TRUE, st |-> "running", old |-> FALSE, fl |-> {}, src |-> {}, pipe |-> <<>>, subs |-> {}, bq |-> <<>>, blen |-> 0, stash |-> <<>>, hs |-> <<>>], B |-> [reg |-> TRUE, st |-> "running", old |-> FALSE, fl |-> {}, src |-> {}, pipe |-> <<>>, subs |-> {}, bq |-> <<>>, blen |-> 0, stash |-> <<>>, hs |-> <<>>]], ctx |-> [st |-> "looping", quit |-> TRUE, qcode |-> 1, fin |-> FALSE], run |-> 2, cur |-> "", pay |-> <<[st |-> "unused", copies |-> 0, auto |-> FALSE]>>, rdy |-> {}, due |-> {}, ufd |-> <<"open">>, errno |-> 0]]),
    ([S |-> [stack |-> <<>>, ret |-> 0, mod |-> [A |-> [reg |-> TRUE, st |-> "running", old |-> FALSE, fl |-> {}, src |-> {[os |-> FALSE, ac |-> FALSE, k |-> "fd", key |-> 1]}, pipe |-> <<>>, subs |-> {}, bq |-> <<>>, blen |-> 0, stash |-> <<>>, hs |-> <<>>], B |-> [reg |-> TRUE, st |-> "running", old |-> FALSE, fl |-> {}, src |-> {}, pipe |-> <<>>, subs |-> {}, bq |-> <<>>, blen |-> 0, stash |-> <<>>, hs |-> <<>>]], ctx |-> [st |-> "looping", quit |-> TRUE, qcode |-> 1, fin |-> FALSE], run |-> 2, cur |-> "", pay |-> <<[st |-> "unused", copies |-> 0, auto |-> FALSE]>>, rdy |-> {}, due |-> {}, ufd |-> <<"open">>, errno |-> 0]]),
    ([S |-> [stack |-> <<>>, ret |-> 0, mod |-> [A |-> [reg |-> TRUE, st |-> "running", old |-> FALSE, fl |-> {}, src |-> {[os |-> FALSE, ac |-> FALSE, k |-> "fd", key |-> 1]}, pipe |-> <<>>, subs |-> {}, bq |-> <<>>, blen |-> 0, stash |-> <<>>, hs |-> <<>>], B |-> [reg |-> TRUE, st |-> "running", old |-> FALSE, fl |-> {}, src |-> {[os |-> FALSE, ac |-> TRUE, k |-> "fd", key |-> 1]}, pipe |-> <<>>, subs |-> {}, bq |-> <<>>, blen |-> 0, stash |-> <<>>, hs |-> <<>>]], ctx |-> [st |-> "looping", quit |-> TRUE, qcode |-> 1, fin |-> FALSE], run |-> 2, cur |-> "", pay |-> <<[st |-> "unused", copies |-> 0, auto |-> FALSE]>>, rdy |-> {}, due |-> {}, ufd |-> <<"open">>, errno |-> 0]]),
    ([S |-> [stack |-> <<>>, ret |-> 0, mod |-> [A |-> [reg |-> TRUE, st |-> "running", old |-> FALSE, fl |-> {}, src |-> {[os |-> FALSE, ac |-> FALSE, k |-> "fd", key |-> 1]}, pipe |-> <<>>, subs |-> {}, bq |-> <<>>, blen |-> 0, stash |-> <<>>, hs |-> <<>>], B |-> [reg |-> TRUE, st |-> "stopped", old |-> FALSE, fl |-> {}, src |-> {}, pipe |-> <<>>, subs |-> {}, bq |-> <<>>, blen |-> 0, stash |-> <<>>, hs |-> <<>>]], ctx |-> [st |-> "looping", quit |-> TRUE, qcode |-> 1, fin |-> FALSE], run |-> 1, cur |-> "", pay |-> <<[st |-> "unused", copies |-> 0, auto |-> FALSE]>>, rdy |-> {}, due |-> {}, ufd |-> <<"closed">>, errno |-> 0]])
    >>
----


=============================================================================

---- CONFIG CoreMC_TTrace_1790832266 ----
CONSTANTS
    Mods = { "A" , "B" }
    Order <- Order2
    Hooks <- Hooks_none2
    Flags <- Flags_none
    CtxPersist = TRUE
    Topics = { "t1" }
    Pats = { }
    MaxPay = 1
    Cap = 2
    MaxNest = 1
    Ops = { "CtxDeregister" , "DropRef" , "Dispatch" , "CtxQuit" , "SrcRegister" , "SrcDeregister" , "FdReady" , "FdDrain" , "FdReopen" , "TmrFire" , "ModPause" , "ModResume" , "ModStop" , "Tell" }
    CbOps = { "SetErrno" , "FdDrain" , "ModStop" , "ModPause" , "SrcDeregister" }
    EvalVals = { TRUE }
    Prios = { "N" }
    BatchSizes = { }
    UnstashNs = { }
    HandlerIds = { }
    Kinds = { "fd" , "tmr" }
    Keys = { 1 }
    SrcOpts <- Opts_all
    MaxBatch = 2
    Errnos = { 11 , 2 }
    Targets = { "A" , "B" }
    AutoVals = { TRUE }
    Senders = { "A" }
    QuitCodes = { 1 }
    Setup = "loop2"

INVARIANT
    _inv

CHECK_DEADLOCK
    \* CHECK_DEADLOCK off because of PROPERTY or INVARIANT above.
    FALSE

INIT
    _init

NEXT
    _next

CONSTANT
    _TETrace <- _trace

ALIAS
    _expression
=============================================================================
\* Generated on Thu Oct 01 05:24:29 UTC 2026