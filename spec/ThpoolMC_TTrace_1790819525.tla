---- MODULE ThpoolMC_TTrace_1790819525 ----
EXTENDS ThpoolMC_TEConstants, Sequences, TLCExt, Toolbox, Naturals, TLC, ThpoolMC

_expression ==
    LET ThpoolMC_TEExpression == INSTANCE ThpoolMC_TEExpression
    IN ThpoolMC_TEExpression!expression
----

_trace ==
    LET ThpoolMC_TETrace == INSTANCE ThpoolMC_TETrace
    IN ThpoolMC_TETrace!trace
----

_prop ==
    ~(([]<>(
            cur = (<<0, 0>>)
            /\
            pcS = (<<"done", "done">>)
            /\
            alive = (1)
            /\
            pcW = (<<"exited", "woken">>)
            /\
            threads = (<<2, 1>>)
            /\
            freed = (FALSE)
            /\
            running = (0)
            /\
            task = (<<"done", "done", "done">>)
            /\
            si = (<<3, 2>>)
            /\
            lock = (0)
            /\
            pcM = ("f_woken")
            /\
            mi = (1)
            /\
            shutdown = ("WAITALL")
            /\
            queue = (<<>>)
    ))/\([]<>(
            cur = (<<0, 0>>)
            /\
            pcS = (<<"done", "done">>)
            /\
            alive = (1)
            /\
            pcW = (<<"exited", "woken">>)
            /\
            threads = (<<2, 1>>)
            /\
            freed = (FALSE)
            /\
            running = (0)
            /\
            task = (<<"done", "done", "done">>)
            /\
            si = (<<3, 2>>)
            /\
            lock = (-1)
            /\
            pcM = ("f_wait")
            /\
            mi = (1)
            /\
            shutdown = ("WAITALL")
            /\
            queue = (<<>>)
    )))
----

_init ==
    /\ shutdown = _TETrace[1].shutdown
    /\ mi = _TETrace[1].mi
    /\ cur = _TETrace[1].cur
    /\ running = _TETrace[1].running
    /\ alive = _TETrace[1].alive
    /\ pcM = _TETrace[1].pcM
    /\ pcS = _TETrace[1].pcS
    /\ pcW = _TETrace[1].pcW
    /\ lock = _TETrace[1].lock
    /\ si = _TETrace[1].si
    /\ queue = _TETrace[1].queue
    /\ task = _TETrace[1].task
    /\ threads = _TETrace[1].threads
    /\ freed = _TETrace[1].freed
----

_next ==
    /\ \E i,j \in DOMAIN _TETrace:
        /\ \/ /\ j = i + 1
              /\ i = TLCGet("level")
           \/ /\ i = _TTraceLassoEnd
              /\ j = _TTraceLassoStart
        /\ shutdown  = _TETrace[i].shutdown
        /\ shutdown' = _TETrace[j].shutdown
        /\ mi  = _TETrace[i].mi
        /\ mi' = _TETrace[j].mi
        /\ cur  = _TETrace[i].cur
        /\ cur' = _TETrace[j].cur
        /\ running  = _TETrace[i].running
        /\ running' = _TETrace[j].running
        /\ alive  = _TETrace[i].alive
        /\ alive' = _TETrace[j].alive
        /\ pcM  = _TETrace[i].pcM
        /\ pcM' = _TETrace[j].pcM
        /\ pcS  = _TETrace[i].pcS
        /\ pcS' = _TETrace[j].pcS
        /\ pcW  = _TETrace[i].pcW
        /\ pcW' = _TETrace[j].pcW
        /\ lock  = _TETrace[i].lock
        /\ lock' = _TETrace[j].lock
        /\ si  = _TETrace[i].si
        /\ si' = _TETrace[j].si
        /\ queue  = _TETrace[i].queue
        /\ queue' = _TETrace[j].queue
        /\ task  = _TETrace[i].task
        /\ task' = _TETrace[j].task
        /\ threads  = _TETrace[i].threads
        /\ threads' = _TETrace[j].threads
        /\ freed  = _TETrace[i].freed
        /\ freed' = _TETrace[j].freed

\* Uncomment the ASSUME below to write the states of the error trace
\* to the given file in Json format. Note that you can pass any tuple
\* to `JsonSerialize`. For example, a sub-sequence of _TETrace.
    \* ASSUME
    \*     LET J == INSTANCE Json
    \*         IN J!JsonSerialize("ThpoolMC_TTrace_1790819525.json", _TETrace)


_view ==
    <<shutdown, mi, cur, running, alive, pcM, pcS, pcW, lock, si, queue, task, threads, freed, IF TLCGet("level") = _TTraceLassoEnd + 1 THEN _TTraceLassoStart ELSE TLCGet("level")>>
=============================================================================

 Note that you can extract this module `ThpoolMC_TEExpression`
  to a dedicated file to reuse `expression` (the module in the 
  dedicated `ThpoolMC_TEExpression.tla` file takes precedence 
  over the module `ThpoolMC_TEExpression` below).

---- MODULE ThpoolMC_TEExpression ----
EXTENDS ThpoolMC_TEConstants, Sequences, TLCExt, Toolbox, Naturals, TLC, ThpoolMC

expression == 
    [
        \* To hide variables of the `ThpoolMC` spec from the error trace,
        \* remove the variables below.  The trace will be written in the order
        \* of the fields of this record.
        shutdown |-> shutdown
        ,mi |-> mi
        ,cur |-> cur
        ,running |-> running
        ,alive |-> alive
        ,pcM |-> pcM
        ,pcS |-> pcS
        ,pcW |-> pcW
        ,lock |-> lock
        ,si |-> si
        ,queue |-> queue
        ,task |-> task
        ,threads |-> threads
        ,freed |-> freed
        
        \* Put additional constant-, state-, and action-level expressions here:
        \* ,_stateNumber |-> _TEPosition
        \* ,_shutdownUnchanged |-> shutdown = shutdown'
        
        \* Format the `shutdown` variable as Json value.
        \* ,_shutdownJson |->
        \*     LET J == INSTANCE Json
        \*     IN J!ToJson(shutdown)
        
        \* Lastly, you may build expressions over arbitrary sets of states by
        \* leveraging the _TETrace operator.  For example, this is how to
        \* count the number of times a spec variable changed up to the current
        \* state in the trace.
        \* ,_shutdownModCount |->
        \*     LET F[s \in DOMAIN _TETrace] ==
        \*         IF s = 1 THEN 0
        \*         ELSE IF _TETrace[s].shutdown # _TETrace[s-1].shutdown
        \*             THEN 1 + F[s-1] ELSE F[s-1]
        \*     IN F[_TEPosition - 1]
    ]

=============================================================================



Parsing and semantic processing can take forever if the trace below is long.
 In this case, it is advised to uncomment the module below to deserialize the
 trace from a generated binary file.

\*
\*---- MODULE ThpoolMC_TETrace ----
\*EXTENDS ThpoolMC_TEConstants, IOUtils, TLC, ThpoolMC
\*
\*trace == IODeserialize("ThpoolMC_TTrace_1790819525.bin", TRUE)
\*
\*=============================================================================
\*

---- MODULE ThpoolMC_TETrace ----
EXTENDS ThpoolMC_TEConstants, TLC, ThpoolMC

trace == 
    <<
    ([cur |-> <<0, 0>>,pcS |-> <<"idle", "idle">>,alive |-> 0,pcW |-> <<"none", "none">>,threads |-> <<>>,freed |-> FALSE,running |-> 0,task |-> <<"new", "new", "new">>,si |-> <<1, 1>>,lock |-> 0,pcM |-> "start",mi |-> 1,shutdown |-> "NO",queue |-> <<>>]),
    ([cur |-> <<0, 0>>,pcS |-> <<"lock", "lock">>,alive |-> 0,pcW |-> <<"none", "none">>,threads |-> <<>>,freed |-> FALSE,running |-> 0,task |-> <<"new", "new", "new">>,si |-> <<1, 1>>,lock |-> 0,pcM |-> "joinsubs",mi |-> 1,shutdown |-> "NO",queue |-> <<>>]),
    ([cur |-> <<0, 0>>,pcS |-> <<"lock", "create">>,alive |-> 0,pcW |-> <<"none", "none">>,threads |-> <<>>,freed |-> FALSE,running |-> 0,task |-> <<"new", "new", "new">>,si |-> <<1, 1>>,lock |-> -3,pcM |-> "joinsubs",mi |-> 1,shutdown |-> "NO",queue |-> <<>>]),
    ([cur |-> <<0, 0>>,pcS |-> <<"lock", "signal">>,alive |-> 1,pcW |-> <<"lock", "none">>,threads |-> <<1>>,freed |-> FALSE,running |-> 0,task |-> <<"new", "new", "queued">>,si |-> <<1, 1>>,lock |-> -3,pcM |-> "joinsubs",mi |-> 1,shutdown |-> "NO",queue |-> <<3>>]),
    ([cur |-> <<0, 0>>,pcS |-> <<"lock", "unlock">>,alive |-> 1,pcW |-> <<"lock", "none">>,threads |-> <<1>>,freed |-> FALSE,running |-> 0,task |-> <<"new", "new", "queued">>,si |-> <<1, 1>>,lock |-> -3,pcM |-> "joinsubs",mi |-> 1,shutdown |-> "NO",queue |-> <<3>>]),
    ([cur |-> <<0, 0>>,pcS |-> <<"lock", "done">>,alive |-> 1,pcW |-> <<"lock", "none">>,threads |-> <<1>>,freed |-> FALSE,running |-> 0,task |-> <<"new", "new", "queued">>,si |-> <<1, 2>>,lock |-> 0,pcM |-> "joinsubs",mi |-> 1,shutdown |-> "NO",queue |-> <<3>>]),
    ([cur |-> <<3, 0>>,pcS |-> <<"lock", "done">>,alive |-> 1,pcW |-> <<"unlock_run", "none">>,threads |-> <<1>>,freed |-> FALSE,running |-> 0,task |-> <<"new", "new", "queued">>,si |-> <<1, 2>>,lock |-> 1,pcM |-> "joinsubs",mi |-> 1,shutdown |-> "NO",queue |-> <<>>]),
    ([cur |-> <<3, 0>>,pcS |-> <<"lock", "done">>,alive |-> 1,pcW |-> <<"taskbegin", "none">>,threads |-> <<1>>,freed |-> FALSE,running |-> 1,task |-> <<"new", "new", "queued">>,si |-> <<1, 2>>,lock |-> 0,pcM |-> "joinsubs",mi |-> 1,shutdown |-> "NO",queue |-> <<>>]),
    ([cur |-> <<3, 0>>,pcS |-> <<"create", "done">>,alive |-> 1,pcW |-> <<"taskbegin", "none">>,threads |-> <<1>>,freed |-> FALSE,running |-> 1,task |-> <<"new", "new", "queued">>,si |-> <<1, 2>>,lock |-> -2,pcM |-> "joinsubs",mi |-> 1,shutdown |-> "NO",queue |-> <<>>]),
    ([cur |-> <<3, 0>>,pcS |-> <<"create", "done">>,alive |-> 1,pcW |-> <<"taskend", "none">>,threads |-> <<1>>,freed |-> FALSE,running |-> 1,task |-> <<"new", "new", "running">>,si |-> <<1, 2>>,lock |-> -2,pcM |-> "joinsubs",mi |-> 1,shutdown |-> "NO",queue |-> <<>>]),
    ([cur |-> <<3, 0>>,pcS |-> <<"signal", "done">>,alive |-> 2,pcW |-> <<"taskend", "lock">>,threads |-> <<2, 1>>,freed |-> FALSE,running |-> 1,task |-> <<"queued", "new", "running">>,si |-> <<1, 2>>,lock |-> -2,pcM |-> "joinsubs",mi |-> 1,shutdown |-> "NO",queue |-> <<1>>]),
    ([cur |-> <<0, 0>>,pcS |-> <<"signal", "done">>,alive |-> 2,pcW |-> <<"lock", "lock">>,threads |-> <<2, 1>>,freed |-> FALSE,running |-> 0,task |-> <<"queued", "new", "done">>,si |-> <<1, 2>>,lock |-> -2,pcM |-> "joinsubs",mi |-> 1,shutdown |-> "NO",queue |-> <<1>>]),
    ([cur |-> <<0, 0>>,pcS |-> <<"unlock", "done">>,alive |-> 2,pcW |-> <<"lock", "lock">>,threads |-> <<2, 1>>,freed |-> FALSE,running |-> 0,task |-> <<"queued", "new", "done">>,si |-> <<1, 2>>,lock |-> -2,pcM |-> "joinsubs",mi |-> 1,shutdown |-> "NO",queue |-> <<1>>]),
    ([cur |-> <<0, 0>>,pcS |-> <<"lock", "done">>,alive |-> 2,pcW |-> <<"lock", "lock">>,threads |-> <<2, 1>>,freed |-> FALSE,running |-> 0,task |-> <<"queued", "new", "done">>,si |-> <<2, 2>>,lock |-> 0,pcM |-> "joinsubs",mi |-> 1,shutdown |-> "NO",queue |-> <<1>>]),
    ([cur |-> <<1, 0>>,pcS |-> <<"lock", "done">>,alive |-> 2,pcW |-> <<"unlock_run", "lock">>,threads |-> <<2, 1>>,freed |-> FALSE,running |-> 0,task |-> <<"queued", "new", "done">>,si |-> <<2, 2>>,lock |-> 1,pcM |-> "joinsubs",mi |-> 1,shutdown |-> "NO",queue |-> <<>>]),
    ([cur |-> <<1, 0>>,pcS |-> <<"lock", "done">>,alive |-> 2,pcW |-> <<"taskbegin", "lock">>,threads |-> <<2, 1>>,freed |-> FALSE,running |-> 1,task |-> <<"queued", "new", "done">>,si |-> <<2, 2>>,lock |-> 0,pcM |-> "joinsubs",mi |-> 1,shutdown |-> "NO",queue |-> <<>>]),
    ([cur |-> <<1, 0>>,pcS |-> <<"lock", "done">>,alive |-> 2,pcW |-> <<"taskbegin", "condwait">>,threads |-> <<2, 1>>,freed |-> FALSE,running |-> 1,task |-> <<"queued", "new", "done">>,si |-> <<2, 2>>,lock |-> 2,pcM |-> "joinsubs",mi |-> 1,shutdown |-> "NO",queue |-> <<>>]),
    ([cur |-> <<1, 0>>,pcS |-> <<"lock", "done">>,alive |-> 2,pcW |-> <<"taskend", "condwait">>,threads |-> <<2, 1>>,freed |-> FALSE,running |-> 1,task |-> <<"running", "new", "done">>,si |-> <<2, 2>>,lock |-> 2,pcM |-> "joinsubs",mi |-> 1,shutdown |-> "NO",queue |-> <<>>]),
    ([cur |-> <<0, 0>>,pcS |-> <<"lock", "done">>,alive |-> 2,pcW |-> <<"lock", "condwait">>,threads |-> <<2, 1>>,freed |-> FALSE,running |-> 0,task |-> <<"done", "new", "done">>,si |-> <<2, 2>>,lock |-> 2,pcM |-> "joinsubs",mi |-> 1,shutdown |-> "NO",queue |-> <<>>]),
    ([cur |-> <<0, 0>>,pcS |-> <<"lock", "done">>,alive |-> 2,pcW |-> <<"lock", "sleeping">>,threads |-> <<2, 1>>,freed |-> FALSE,running |-> 0,task |-> <<"done", "new", "done">>,si |-> <<2, 2>>,lock |-> 0,pcM |-> "joinsubs",mi |-> 1,shutdown |-> "NO",queue |-> <<>>]),
    ([cur |-> <<0, 0>>,pcS |-> <<"signal", "done">>,alive |-> 2,pcW |-> <<"lock", "sleeping">>,threads |-> <<2, 1>>,freed |-> FALSE,running |-> 0,task |-> <<"done", "queued", "done">>,si |-> <<2, 2>>,lock |-> -2,pcM |-> "joinsubs",mi |-> 1,shutdown |-> "NO",queue |-> <<2>>]),
    ([cur |-> <<0, 0>>,pcS |-> <<"unlock", "done">>,alive |-> 2,pcW |-> <<"lock", "woken">>,threads |-> <<2, 1>>,freed |-> FALSE,running |-> 0,task |-> <<"done", "queued", "done">>,si |-> <<2, 2>>,lock |-> -2,pcM |-> "joinsubs",mi |-> 1,shutdown |-> "NO",queue |-> <<2>>]),
    ([cur |-> <<0, 0>>,pcS |-> <<"done", "done">>,alive |-> 2,pcW |-> <<"lock", "woken">>,threads |-> <<2, 1>>,freed |-> FALSE,running |-> 0,task |-> <<"done", "queued", "done">>,si |-> <<3, 2>>,lock |-> 0,pcM |-> "joinsubs",mi |-> 1,shutdown |-> "NO",queue |-> <<2>>]),
    ([cur |-> <<0, 0>>,pcS |-> <<"done", "done">>,alive |-> 2,pcW |-> <<"lock", "woken">>,threads |-> <<2, 1>>,freed |-> FALSE,running |-> 0,task |-> <<"done", "queued", "done">>,si |-> <<3, 2>>,lock |-> 0,pcM |-> "f_lock",mi |-> 1,shutdown |-> "NO",queue |-> <<2>>]),
    ([cur |-> <<2, 0>>,pcS |-> <<"done", "done">>,alive |-> 2,pcW |-> <<"unlock_run", "woken">>,threads |-> <<2, 1>>,freed |-> FALSE,running |-> 0,task |-> <<"done", "queued", "done">>,si |-> <<3, 2>>,lock |-> 1,pcM |-> "f_lock",mi |-> 1,shutdown |-> "NO",queue |-> <<>>]),
    ([cur |-> <<2, 0>>,pcS |-> <<"done", "done">>,alive |-> 2,pcW |-> <<"taskbegin", "woken">>,threads |-> <<2, 1>>,freed |-> FALSE,running |-> 1,task |-> <<"done", "queued", "done">>,si |-> <<3, 2>>,lock |-> 0,pcM |-> "f_lock",mi |-> 1,shutdown |-> "NO",queue |-> <<>>]),
    ([cur |-> <<2, 0>>,pcS |-> <<"done", "done">>,alive |-> 2,pcW |-> <<"taskend", "woken">>,threads |-> <<2, 1>>,freed |-> FALSE,running |-> 1,task |-> <<"done", "running", "done">>,si |-> <<3, 2>>,lock |-> 0,pcM |-> "f_lock",mi |-> 1,shutdown |-> "NO",queue |-> <<>>]),
    ([cur |-> <<0, 0>>,pcS |-> <<"done", "done">>,alive |-> 2,pcW |-> <<"lock", "woken">>,threads |-> <<2, 1>>,freed |-> FALSE,running |-> 0,task |-> <<"done", "done", "done">>,si |-> <<3, 2>>,lock |-> 0,pcM |-> "f_lock",mi |-> 1,shutdown |-> "NO",queue |-> <<>>]),
    ([cur |-> <<0, 0>>,pcS |-> <<"done", "done">>,alive |-> 2,pcW |-> <<"lock", "woken">>,threads |-> <<2, 1>>,freed |-> FALSE,running |-> 0,task |-> <<"done", "done", "done">>,si |-> <<3, 2>>,lock |-> -1,pcM |-> "f_bcast",mi |-> 1,shutdown |-> "WAITALL",queue |-> <<>>]),
    ([cur |-> <<0, 0>>,pcS |-> <<"done", "done">>,alive |-> 2,pcW |-> <<"lock", "woken">>,threads |-> <<2, 1>>,freed |-> FALSE,running |-> 0,task |-> <<"done", "done", "done">>,si |-> <<3, 2>>,lock |-> -1,pcM |-> "f_unlock",mi |-> 1,shutdown |-> "WAITALL",queue |-> <<>>]),
    ([cur |-> <<0, 0>>,pcS |-> <<"done", "done">>,alive |-> 2,pcW |-> <<"lock", "woken">>,threads |-> <<2, 1>>,freed |-> FALSE,running |-> 0,task |-> <<"done", "done", "done">>,si |-> <<3, 2>>,lock |-> 0,pcM |-> "f_lock2",mi |-> 1,shutdown |-> "WAITALL",queue |-> <<>>]),
    ([cur |-> <<0, 0>>,pcS |-> <<"done", "done">>,alive |-> 1,pcW |-> <<"exit_bcast", "woken">>,threads |-> <<2, 1>>,freed |-> FALSE,running |-> 0,task |-> <<"done", "done", "done">>,si |-> <<3, 2>>,lock |-> 1,pcM |-> "f_lock2",mi |-> 1,shutdown |-> "WAITALL",queue |-> <<>>]),
    ([cur |-> <<0, 0>>,pcS |-> <<"done", "done">>,alive |-> 1,pcW |-> <<"exit_unlock", "woken">>,threads |-> <<2, 1>>,freed |-> FALSE,running |-> 0,task |-> <<"done", "done", "done">>,si |-> <<3, 2>>,lock |-> 1,pcM |-> "f_lock2",mi |-> 1,shutdown |-> "WAITALL",queue |-> <<>>]),
    ([cur |-> <<0, 0>>,pcS |-> <<"done", "done">>,alive |-> 1,pcW |-> <<"exited", "woken">>,threads |-> <<2, 1>>,freed |-> FALSE,running |-> 0,task |-> <<"done", "done", "done">>,si |-> <<3, 2>>,lock |-> 0,pcM |-> "f_lock2",mi |-> 1,shutdown |-> "WAITALL",queue |-> <<>>]),
    ([cur |-> <<0, 0>>,pcS |-> <<"done", "done">>,alive |-> 1,pcW |-> <<"exited", "woken">>,threads |-> <<2, 1>>,freed |-> FALSE,running |-> 0,task |-> <<"done", "done", "done">>,si |-> <<3, 2>>,lock |-> -1,pcM |-> "f_wait",mi |-> 1,shutdown |-> "WAITALL",queue |-> <<>>]),
    ([cur |-> <<0, 0>>,pcS |-> <<"done", "done">>,alive |-> 1,pcW |-> <<"exited", "woken">>,threads |-> <<2, 1>>,freed |-> FALSE,running |-> 0,task |-> <<"done", "done", "done">>,si |-> <<3, 2>>,lock |-> 0,pcM |-> "f_sleeping",mi |-> 1,shutdown |-> "WAITALL",queue |-> <<>>]),
    ([cur |-> <<0, 0>>,pcS |-> <<"done", "done">>,alive |-> 1,pcW |-> <<"exited", "woken">>,threads |-> <<2, 1>>,freed |-> FALSE,running |-> 0,task |-> <<"done", "done", "done">>,si |-> <<3, 2>>,lock |-> 0,pcM |-> "f_woken",mi |-> 1,shutdown |-> "WAITALL",queue |-> <<>>])
    >>
----


=============================================================================

---- MODULE ThpoolMC_TEConstants ----
EXTENDS ThpoolMC

CONSTANTS _TTraceLassoStart, _TTraceLassoEnd

=============================================================================

---- CONFIG ThpoolMC_TTrace_1790819525 ----
CONSTANTS
    N = 2
    Subs = { 1 , 2 }
    TaskOf <- T_2x21
    Lazy = TRUE
    Detached = TRUE
    WaitAll = TRUE
_TTraceLassoStart = 35
_TTraceLassoEnd = 37

PROPERTY
    _prop

CHECK_DEADLOCK
    \* CHECK_DEADLOCK off because of PROPERTY or INVARIANT above.
    FALSE

INIT
    _init

NEXT
    _next

VIEW
    _view

CONSTANT
    _TETrace <- _trace

ALIAS
    _expression
=============================================================================
\* Generated on Thu Oct 01 01:52:07 UTC 2026