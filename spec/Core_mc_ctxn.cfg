\* nested teardown (C07): the context is deregistered, and a fresh one registered, from inside the stop callbacks run by a teardown, by a deregistration, by a replacement and by the flush of a stopping loop: the fresh context survives the calls that were made on behalf of the released one
CONSTANTS
  Mods = {"A", "B"}
  Order <- Order2
  Collide = FALSE
  Hooks <- Hooks_ctxn
  Flags <- Flags_ctxn
  CtxPersist = FALSE
  Topics = {"t1"}
  Pats = {"t1"}
  MaxPay = 1
  Cap = 2
  MaxNest = 1
  Ops = {"CtxRegister", "CtxDeregister", "Dispatch", "CtxQuit", "ModRegister", "ModDeregister", "ModStart", "DropRef", "Tell"}
  CbOps = {"CtxDeregister", "CtxRegister", "ModRegister"}
  EvalVals = {TRUE, FALSE}
  Prios = {"N"}
  BatchSizes = {}
  UnstashNs = {}
  HandlerIds = {}
  Kinds = {}
  Keys = {1}
  BadKeys = {}
  SrcOpts = {}
  EvKinds = {"ps"}
  MaxBatch = 3
  Errnos = {}
  TbVals = {}
  TickVals = {}
  Targets = {"A", "B"}
  SubTargets = {"A", "B"}
  AutoVals = {TRUE, FALSE}
  SubOneshot = {FALSE}
  UdVals = {0}
  Senders = {"B"}
  QuitCodes = {0, 1}
  ForeignOps = {}
  MaxRefs = 1
  MaxHeld = 0
  PoolSize = 16
  Setup = ""
INIT Init
NEXT Next
CHECK_DEADLOCK FALSE
INVARIANTS TypeOK C01_RunningCount C01_NoHandlerUnlessRunning C07_NoCtxNoModules C02_CopyAccounting C02_NoMailUnlessActive
PROPERTIES C07_NoJoinAfterFinalize
