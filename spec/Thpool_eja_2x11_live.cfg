\* liveness configuration (fairness, no state constraint): same constants as Thpool_eja_2x11.cfg
CONSTANTS
  N = 2
  Subs = {1, 2}
  TaskOf <- T_2x11
  Follow <- F_none
  Lazy = FALSE
  Detached = FALSE
  WaitAll = TRUE
SPECIFICATION FairSpec
CHECK_DEADLOCK FALSE
PROPERTIES Terminates
