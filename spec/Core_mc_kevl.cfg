\* low-priority signal / path sources (C03, C13): their events never trigger an invocation by themselves and ride along - with the userdata of their own registration - with the next normal-priority event of the module; bounded batch queue
CONSTANTS
  Mods = {"A", "B"}
  Order <- Order2
  Collide = FALSE
  Hooks <- Hooks_none2
  Flags <- Flags_none
  CtxPersist = TRUE
  Topics = {"t1"}
  Pats = {}
  MaxPay = 1
  Cap = 2
  MaxNest = 1
  Ops = {"CtxDeregister", "DropRef", "Dispatch", "CtxQuit", "SrcRegister", "SrcDeregister", "SgnRaise", "PathTouch", "ModStop", "ModPause", "ModResume"}
  CbOps = {}
  EvalVals = {TRUE}
  Prios = {"N"}
  BatchSizes = {}
  UnstashNs = {}
  HandlerIds = {}
  Kinds = {"sgn", "path"}
  Keys = {1}
  BadKeys = {}
  SrcOpts <- Opts_lowprio
  EvKinds = {"sgn", "path"}
  MaxBatch = 2
  Errnos = {}
  TbVals = {}
  TickVals = {}
  Targets = {"A"}
  SubTargets = {"A"}
  AutoVals = {}
  SubOneshot = {FALSE}
  UdVals = {0}
  Senders = {}
  QuitCodes = {1}
  ForeignOps = {}
  MaxRefs = 1
  MaxHeld = 0
  PoolSize = 16
  Setup = "loop2"
INIT Init
NEXT Next
CHECK_DEADLOCK FALSE
CONSTRAINT BqBound
INVARIANTS TypeOK C01_RunningCount C01_NoHandlerUnlessRunning C07_NoCtxNoModules C02_AutoFree C02_CopyAccounting C02_NoMailUnlessActive C13_ClearedOnStop C09_KeyedSet C09_DroppedOnStop C20_RegisteredOpen C04_NoOrphanTask C03_PendingHasSource
