\* (quick variant: no calls from inside handlers) direct messages (C02, C08): set-up = 2 RUNNING modules in a started loop; tell/broadcast/poison pill, 2 payloads in flight, with and without auto-free, recipient paused/resumed/stopped with messages in flight, mailbox capacity 2, quit + final flush
CONSTANTS
  Mods = {"A", "B"}
  Order <- Order2
  Collide = FALSE
  Hooks <- Hooks_none2
  Flags <- Flags_none
  CtxPersist = TRUE
  Topics = {"t1"}
  Pats = {}
  MaxPay = 2
  Cap = 2
  MaxNest = 1
  Ops = {"CtxDeregister", "DropRef", "Dispatch", "CtxQuit", "ModPause", "ModResume", "ModStop", "Tell", "Pill"}
  CbOps = {}
  EvalVals = {TRUE}
  Prios = {"N"}
  BatchSizes = {}
  UnstashNs = {}
  HandlerIds = {}
  Kinds = {}
  Keys = {1}
  BadKeys = {}
  SrcOpts = {}
  EvKinds = {"ps"}
  MaxBatch = 3
  Errnos = {}
  TbVals = {}
  TickVals = {}
  Targets = {"A", "B"}
  SubTargets = {"A", "B"}
  AutoVals = {TRUE, FALSE}
  SubOneshot = {FALSE}
  UdVals = {0}
  Senders = {"A"}
  QuitCodes = {1}
  ForeignOps = {}
  MaxRefs = 1
  MaxHeld = 0
  PoolSize = 16
  Setup = "loop2"
INIT Init
NEXT Next
CHECK_DEADLOCK FALSE
INVARIANTS TypeOK C01_RunningCount C01_NoHandlerUnlessRunning C07_NoCtxNoModules C02_AutoFree C02_CopyAccounting C02_NoMailUnlessActive
