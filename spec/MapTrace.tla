------------------------------ MODULE MapTrace ------------------------------
(* Trace validation for MapAbs.tla: an ndjson trace recorded from the real m_map_* calls over thousands of keys (the table
   grows 256 -> 512 -> 1024 -> 2048 slots and is rehashed) must be a behaviour of the dictionary: every line is a step of
   MapAbs with the logged arguments, produces the logged outputs, the logged length, and the logged set of values whose
   destructor ran in that step.                                                                                        *)
EXTENDS MapAbs, Json, IOUtils

ValsBig == 1..6000
ValsSmall == 1..1600
VARIABLE l
Tr == ndJsonDeserialize(IOEnv.TRACE)
ToSet(s) == {s[i] : i \in 1..Len(s)}

TInit == Init /\ l = 1
Reset == m' = Empty /\ it' = NoIt /\ fate' = [v \in Vals |-> "out"] /\ obs' = <<0>>
Died == {v \in Vals : fate[v] # "dead" /\ fate'[v] = "dead"}

TNext == /\ l <= Len(Tr)
         /\ l' = l + 1
         /\ LET ev == Tr[l] IN
            IF ev.a = "Reset" THEN Reset
            ELSE /\ CASE ev.a = "Put"       -> Put(ev.k, ev.v)
                      [] ev.a = "Get"       -> Get(ev.k)
                      [] ev.a = "Contains"  -> Contains(ev.k)
                      [] ev.a = "Remove"    -> Remove(ev.k)
                      [] ev.a = "Clear"     -> Clear
                      [] ev.a = "IterateRm" -> IterateRm(ToSet(ev.rm))
                      [] ev.a = "ItrNew"    -> IF ev.k = "" THEN ItrNewEmpty ELSE ItrNew(ev.k)
                      [] ev.a = "ItrNext"   -> ItrNext(ev.k)
                      [] ev.a = "ItrGet"    -> ItrGet
                      [] ev.a = "ItrRemove" -> ItrRemove
                      [] OTHER -> FALSE
                 /\ obs' = ev.obs
                 /\ Cardinality(DOMAIN m') = ev.len
                 /\ Died = ToSet(ev.dead)

TSpec == TInit /\ [][TNext]_<<vars, l>>
Accepted == TLCGet("stats").diameter - 1 = Len(Tr)
=============================================================================
