\* as life, with module names that share a bucket of the context table (C01)
CONSTANTS
  Mods = {"A", "B"}
  Order <- Order2
  Collide = TRUE
  Hooks <- Hooks_life
  Flags <- Flags_none
  CtxPersist = FALSE
  Topics = {"t1"}
  Pats = {"t1"}
  MaxPay = 1
  Cap = 2
  MaxNest = 1
  Ops = {"CtxRegister", "CtxDeregister", "Dispatch", "DispatchIntr", "CtxQuit", "ModRegister", "ModDeregister", "ModStart", "ModPause", "ModResume", "ModStop", "DropRef", "Tell"}
  CbOps = {"ModStart", "ModPause", "ModStop", "ModDeregister", "CtxQuit"}
  EvalVals = {TRUE, FALSE}
  Prios = {"N"}
  BatchSizes = {}
  UnstashNs = {}
  HandlerIds = {}
  Kinds = {}
  Keys = {1}
  BadKeys = {}
  SrcOpts = {}
  EvKinds = {"ps"}
  MaxBatch = 3
  Errnos = {}
  TbVals = {}
  TickVals = {}
  Targets = {"A", "B"}
  SubTargets = {"A", "B"}
  AutoVals = {TRUE, FALSE}
  SubOneshot = {FALSE}
  UdVals = {0}
  Senders = {"A", "B"}
  QuitCodes = {0, 1}
  ForeignOps = {}
  MaxRefs = 1
  MaxHeld = 0
  PoolSize = 16
  Setup = ""
INIT Init
NEXT Next
CHECK_DEADLOCK FALSE
INVARIANTS TypeOK C01_RunningCount C01_NoHandlerUnlessRunning C07_NoCtxNoModules C02_AutoFree C02_CopyAccounting C02_NoMailUnlessActive
