\* stash with batching and descriptor events (C16): set-up = 2 RUNNING modules; A batches (size 2), has a descriptor source (high priority: never stashed) and stashes inside handlers; unstash from outside a handler with events still held back by batching
CONSTANTS
  Mods = {"A", "B"}
  Order <- Order2
  Collide = FALSE
  Hooks <- Hooks_none2
  Flags <- Flags_none
  CtxPersist = TRUE
  Topics = {"t1"}
  Pats = {}
  MaxPay = 2
  Cap = 2
  MaxNest = 1
  Ops = {"CtxDeregister", "DropRef", "Dispatch", "CtxQuit", "Tell", "Unstash", "SetBatchSize", "SrcRegister", "FdReady", "FdDrain"}
  CbOps = {"Stash", "FdDrain"}
  EvalVals = {TRUE}
  Prios = {"N"}
  BatchSizes = {2}
  UnstashNs = {1, 9}
  HandlerIds = {}
  Kinds = {"fd"}
  Keys = {1}
  BadKeys = {}
  SrcOpts <- Opts_plain
  EvKinds = {"ps", "fd"}
  MaxBatch = 3
  Errnos = {}
  TbVals = {}
  TickVals = {}
  Targets = {"A"}
  SubTargets = {"A"}
  AutoVals = {TRUE, FALSE}
  SubOneshot = {FALSE}
  UdVals = {0}
  Senders = {"B"}
  QuitCodes = {1}
  ForeignOps = {}
  MaxRefs = 1
  MaxHeld = 0
  PoolSize = 16
  Setup = "loop2"
INIT Init
NEXT Next
CHECK_DEADLOCK FALSE
INVARIANTS TypeOK C01_RunningCount C01_NoHandlerUnlessRunning C07_NoCtxNoModules C02_AutoFree C02_CopyAccounting C02_NoMailUnlessActive C13_ClearedOnStop C13_HeldBackForAReason C16_NoHighStashed
