\* a source that cannot be armed (a pid source naming no process) registered on a RUNNING module next to a good one: refused, no trace in the registry, counts and later registrations unaffected (C09); one module in every state
CONSTANTS
  Mods = {"A"}
  Order <- Order1
  Collide = FALSE
  Hooks <- Hooks_none1
  Flags <- Flags_none
  CtxPersist = TRUE
  Topics = {"t1"}
  Pats = {"t1", "t."}
  MaxPay = 1
  Cap = 2
  MaxNest = 0
  Ops = {"CtxRegister", "CtxDeregister", "ModRegister", "ModDeregister", "ModStart", "ModPause", "ModResume", "ModStop", "DropRef", "Dispatch", "SrcRegister", "SrcDeregister"}
  CbOps = {}
  EvalVals = {TRUE}
  Prios = {"N"}
  BatchSizes = {}
  UnstashNs = {}
  HandlerIds = {}
  Kinds = {"pid"}
  Keys = {1, 2}
  BadKeys = {2}
  SrcOpts <- Opts_plain
  EvKinds = {"ps"}
  MaxBatch = 2
  Errnos = {}
  TbVals = {}
  TickVals = {}
  Targets = {"A"}
  SubTargets = {"A"}
  AutoVals = {TRUE}
  SubOneshot = {FALSE}
  UdVals = {0}
  Senders = {"A"}
  QuitCodes = {1}
  ForeignOps = {}
  MaxRefs = 1
  MaxHeld = 0
  PoolSize = 16
  Setup = ""
INIT Init
NEXT Next
CHECK_DEADLOCK FALSE
INVARIANTS TypeOK C01_RunningCount C01_NoHandlerUnlessRunning C07_NoCtxNoModules C02_AutoFree C02_CopyAccounting C02_NoMailUnlessActive C13_ClearedOnStop C09_KeyedSet C09_DroppedOnStop C20_RegisteredOpen
