------------------------------- MODULE Thpool -------------------------------
(* Thread pool (Lib/thpool/thpool.c) - property C06.
   Granularity: one action per pthread operation *as it appears in thpool.c*; the code that follows the
   operation up to the thread's next pthread operation runs atomically with it (this is exactly what the
   cooperative scheduler of the replay harness enforces: a thread runs from one announced operation to its
   next announcement).  Threads: the main thread M (m_thpool_new, then - after all submitters returned -
   m_thpool_free), submitters s \in Subs (m_thpool_add for each task of TaskOf[s]), workers 1..N.
   Lock holder ids: 0 free, -1 main, -(1+s) submitter s, w worker w.                                     *)
EXTENDS Integers, Sequences, FiniteSets, TLC

CONSTANTS N,          \* max_threads
          Subs,       \* submitter ids (positive integers)
          TaskOf,     \* TaskOf[s] = sequence of task ids submitted by s, in order
          Follow,     \* Follow[t] = id of the follow-up task that task t submits to its own pool while it runs (0 = none)
          Lazy, Detached, WaitAll

Range(f) == {f[i] : i \in DOMAIN f}
SubTasks == UNION {Range(TaskOf[s]) : s \in Subs}
Tasks == SubTasks \cup ({Follow[t] : t \in SubTasks} \ {0})
Workers == 1..N

VARIABLES pcM, mi,              \* main thread: program counter, join index
          pcS, si,              \* submitters: pc, index of the task being submitted
          pcW, cur,             \* workers: pc, task in hand
          lock, queue, shutdown, threads, running, alive,   \* pool fields
          task,                 \* task[t] \in {"new","queued","running","done","discarded"}
          freed                 \* pool memory returned to the allocator

vars == <<pcM, mi, pcS, si, pcW, cur, lock, queue, shutdown, threads, running, alive, task, freed>>

MainId == -1
SubId(s) == -(1 + s)

Init == /\ pcM = IF Lazy THEN "start" ELSE "create"
        /\ mi = 1
        /\ pcS = [s \in Subs |-> "idle"]
        /\ si = [s \in Subs |-> 1]
        /\ pcW = [w \in Workers |-> "none"]
        /\ cur = [w \in Workers |-> 0]
        /\ lock = 0 /\ queue = <<>> /\ shutdown = "NO" /\ threads = <<>> /\ running = 0 /\ alive = 0
        /\ task = [t \in Tasks |-> "new"]
        /\ freed = FALSE

Sleepers == {w \in Workers : pcW[w] = "sleeping"}
WakeAll(p) == [w \in Workers |-> IF p[w] = "sleeping" THEN "woken" ELSE p[w]]

(* ------------------------------ main thread: new ------------------------------ *)
\* eager pools: pthread_create for each worker inside m_thpool_new (list insert at the head)
MCreate(w) == /\ pcM = "create" /\ w = Len(threads) + 1
              /\ threads' = <<w>> \o threads /\ alive' = alive + 1
              /\ pcW' = [pcW EXCEPT ![w] = "lock"]
              /\ pcM' = IF w = N THEN "start" ELSE "create"
              /\ UNCHANGED <<mi, pcS, si, cur, lock, queue, shutdown, running, task, freed>>

\* harness: let the submitters go
MStart == /\ pcM = "start"
          /\ pcS' = [s \in Subs |-> IF Len(TaskOf[s]) = 0 THEN "done" ELSE "lock"]
          /\ pcM' = "joinsubs"
          /\ UNCHANGED <<mi, si, pcW, cur, lock, queue, shutdown, threads, running, alive, task, freed>>

\* harness: free is called only after every submitter returned (documented precondition)
MJoinSubs == /\ pcM = "joinsubs" /\ \A s \in Subs : pcS[s] = "done"
             /\ pcM' = "f_lock"
             /\ UNCHANGED <<mi, pcS, si, pcW, cur, lock, queue, shutdown, threads, running, alive, task, freed>>

(* ------------------------------ submitters: m_thpool_add ------------------------------ *)
CurTask(s) == TaskOf[s][si[s]]
Enqueue(t) == /\ queue' = Append(queue, t) /\ task' = [task EXCEPT ![t] = "queued"]

ALock(s) == /\ pcS[s] = "lock" /\ lock = 0
            /\ lock' = SubId(s)
            /\ IF Lazy /\ ~(running < Len(threads)) /\ Len(threads) < N
                 THEN pcS' = [pcS EXCEPT ![s] = "create"] /\ UNCHANGED <<queue, task>>
                 ELSE pcS' = [pcS EXCEPT ![s] = "signal"] /\ Enqueue(CurTask(s))
            /\ UNCHANGED <<pcM, mi, si, pcW, cur, shutdown, threads, running, alive, freed>>

\* lazy pools: spawn one more worker under the lock, then enqueue
ACreate(s, w) == /\ pcS[s] = "create" /\ w = Len(threads) + 1
                 /\ threads' = <<w>> \o threads /\ alive' = alive + 1
                 /\ pcW' = [pcW EXCEPT ![w] = "lock"]
                 /\ Enqueue(CurTask(s))
                 /\ pcS' = [pcS EXCEPT ![s] = "signal"]
                 /\ UNCHANGED <<pcM, mi, si, cur, lock, shutdown, running, freed>>

\* pthread_cond_signal: wakes one sleeper (w, chosen by the scheduler) or nobody (w = 0) if none sleeps
ASignal(s, w) == /\ pcS[s] = "signal"
                 /\ IF Sleepers = {} THEN w = 0 /\ UNCHANGED pcW
                                     ELSE w \in Sleepers /\ pcW' = [pcW EXCEPT ![w] = "woken"]
                 /\ pcS' = [pcS EXCEPT ![s] = "unlock"]
                 /\ UNCHANGED <<pcM, mi, si, cur, lock, queue, shutdown, threads, running, alive, task, freed>>

AUnlock(s) == /\ pcS[s] = "unlock"
              /\ lock' = 0
              /\ si' = [si EXCEPT ![s] = si[s] + 1]
              /\ pcS' = [pcS EXCEPT ![s] = IF si[s] = Len(TaskOf[s]) THEN "done" ELSE "lock"]
              /\ UNCHANGED <<pcM, mi, pcW, cur, queue, shutdown, threads, running, alive, task, freed>>

(* ------------------------------ workers: thpool_thread ------------------------------ *)
\* code run by worker w right after it (re)acquired the lock: the while-predicate, the shutdown test, the dequeue
Eval(w) ==
    IF queue = <<>> /\ shutdown = "NO"
      THEN /\ pcW' = [pcW EXCEPT ![w] = "condwait"] /\ UNCHANGED <<cur, queue, alive>>
      ELSE IF shutdown # "NO" /\ (shutdown = "WAITCURR" \/ queue = <<>>)
        THEN /\ alive' = alive - 1
             /\ pcW' = [pcW EXCEPT ![w] = IF Detached THEN "exit_bcast" ELSE "exit_unlock"]
             /\ UNCHANGED <<cur, queue>>
        ELSE /\ cur' = [cur EXCEPT ![w] = Head(queue)] /\ queue' = Tail(queue)
             /\ pcW' = [pcW EXCEPT ![w] = "unlock_run"]
             /\ UNCHANGED alive

WLock(w) == /\ pcW[w] = "lock" /\ lock = 0
            /\ lock' = w /\ Eval(w)
            /\ UNCHANGED <<pcM, mi, pcS, si, shutdown, threads, running, task, freed>>

\* pthread_cond_wait, first half: atomically release the mutex and sleep
WCondWait(w) == /\ pcW[w] = "condwait"
                /\ lock' = 0 /\ pcW' = [pcW EXCEPT ![w] = "sleeping"]
                /\ UNCHANGED <<pcM, mi, pcS, si, cur, queue, shutdown, threads, running, alive, task, freed>>

WSpurious(w) == /\ pcW[w] = "sleeping"
                /\ pcW' = [pcW EXCEPT ![w] = "woken"]
                /\ UNCHANGED <<pcM, mi, pcS, si, cur, lock, queue, shutdown, threads, running, alive, task, freed>>

\* pthread_cond_wait, second half: reacquire the mutex, return, re-test the predicate
WRelock(w) == /\ pcW[w] = "woken" /\ lock = 0
              /\ lock' = w /\ Eval(w)
              /\ UNCHANGED <<pcM, mi, pcS, si, shutdown, threads, running, task, freed>>

WUnlockRun(w) == /\ pcW[w] = "unlock_run"
                 /\ lock' = 0 /\ running' = running + 1
                 /\ pcW' = [pcW EXCEPT ![w] = "taskbegin"]
                 /\ UNCHANGED <<pcM, mi, pcS, si, cur, queue, shutdown, threads, alive, task, freed>>

FollowOf(w) == IF cur[w] \in SubTasks THEN Follow[cur[w]] ELSE 0
WTaskBegin(w) == /\ pcW[w] = "taskbegin"
                 /\ task' = [task EXCEPT ![cur[w]] = "running"]
                 /\ pcW' = [pcW EXCEPT ![w] = IF FollowOf(w) = 0 THEN "taskend" ELSE "n_lock"]
                 /\ UNCHANGED <<pcM, mi, pcS, si, cur, lock, queue, shutdown, threads, running, alive, freed>>

\* the running task submits its follow-up task: m_thpool_add() called by a worker, possibly while the pool is being freed
\* (the shutdown flag is tested under the mutex: a pool being shut down refuses)
WNLock(w) == /\ pcW[w] = "n_lock" /\ lock = 0
             /\ lock' = w
             /\ IF shutdown # "NO" THEN pcW' = [pcW EXCEPT ![w] = "n_refuse"] /\ UNCHANGED <<queue, task>>
                ELSE IF Lazy /\ ~(running < Len(threads)) /\ Len(threads) < N
                  THEN pcW' = [pcW EXCEPT ![w] = "n_create"] /\ UNCHANGED <<queue, task>>
                  ELSE pcW' = [pcW EXCEPT ![w] = "n_signal"] /\ Enqueue(FollowOf(w))
             /\ UNCHANGED <<pcM, mi, pcS, si, cur, shutdown, threads, running, alive, freed>>
WNRefuse(w) == /\ pcW[w] = "n_refuse"
               /\ lock' = 0 /\ pcW' = [pcW EXCEPT ![w] = "taskend"]
               /\ UNCHANGED <<pcM, mi, pcS, si, cur, queue, shutdown, threads, running, alive, task, freed>>
WNCreate(w, w2) == /\ pcW[w] = "n_create" /\ w2 = Len(threads) + 1
                   /\ threads' = <<w2>> \o threads /\ alive' = alive + 1
                   /\ pcW' = [pcW EXCEPT ![w2] = "lock", ![w] = "n_signal"]
                   /\ Enqueue(FollowOf(w))
                   /\ UNCHANGED <<pcM, mi, pcS, si, cur, lock, shutdown, running, freed>>
WNSignal(w, w2) == /\ pcW[w] = "n_signal"
                   /\ IF Sleepers = {} THEN w2 = 0 /\ pcW' = [pcW EXCEPT ![w] = "n_unlock"]
                                       ELSE w2 \in Sleepers /\ pcW' = [pcW EXCEPT ![w2] = "woken", ![w] = "n_unlock"]
                   /\ UNCHANGED <<pcM, mi, pcS, si, cur, lock, queue, shutdown, threads, running, alive, task, freed>>
WNUnlock(w) == /\ pcW[w] = "n_unlock"
               /\ lock' = 0 /\ pcW' = [pcW EXCEPT ![w] = "taskend"]
               /\ UNCHANGED <<pcM, mi, pcS, si, cur, queue, shutdown, threads, running, alive, task, freed>>

WTaskEnd(w) == /\ pcW[w] = "taskend"
               /\ task' = [task EXCEPT ![cur[w]] = "done"]
               /\ running' = running - 1
               /\ cur' = [cur EXCEPT ![w] = 0]
               /\ pcW' = [pcW EXCEPT ![w] = "lock"]
               /\ UNCHANGED <<pcM, mi, pcS, si, lock, queue, shutdown, threads, alive, freed>>

\* detached pools: tell wait_pool() that one more worker left
WExitBcast(w) == /\ pcW[w] = "exit_bcast"
                 /\ pcW' = [WakeAll(pcW) EXCEPT ![w] = "exit_unlock"]
                 /\ pcM' = IF pcM = "f_sleeping" THEN "f_woken" ELSE pcM
                 /\ UNCHANGED <<mi, pcS, si, cur, lock, queue, shutdown, threads, running, alive, task, freed>>

WExitUnlock(w) == /\ pcW[w] = "exit_unlock"
                  /\ lock' = 0 /\ pcW' = [pcW EXCEPT ![w] = "exited"]
                  /\ UNCHANGED <<pcM, mi, pcS, si, cur, queue, shutdown, threads, running, alive, task, freed>>

(* ------------------------------ main thread: m_thpool_free ------------------------------ *)
FLock == /\ pcM = "f_lock" /\ lock = 0
         /\ lock' = MainId /\ shutdown' = IF WaitAll THEN "WAITALL" ELSE "WAITCURR"
         /\ pcM' = "f_bcast"
         /\ UNCHANGED <<mi, pcS, si, pcW, cur, queue, threads, running, alive, task, freed>>

FBroadcast == /\ pcM = "f_bcast"
              /\ pcW' = WakeAll(pcW) /\ pcM' = "f_unlock"
              /\ UNCHANGED <<mi, pcS, si, cur, lock, queue, shutdown, threads, running, alive, task, freed>>

FUnlock == /\ pcM = "f_unlock"
           /\ lock' = 0 /\ mi' = 1
           /\ pcM' = IF Detached THEN "f_lock2" ELSE IF threads = <<>> THEN "f_cdestroy" ELSE "f_join"
           /\ UNCHANGED <<pcS, si, pcW, cur, queue, shutdown, threads, running, alive, task, freed>>

\* joinable pools: pthread_join in list order (most recently created first)
FJoin(w) == /\ pcM = "f_join" /\ w = threads[mi] /\ pcW[w] = "exited"
            /\ mi' = mi + 1
            /\ pcM' = IF mi = Len(threads) THEN "f_cdestroy" ELSE "f_join"
            /\ UNCHANGED <<pcS, si, pcW, cur, lock, queue, shutdown, threads, running, alive, task, freed>>

\* detached pools: wait under the lock until no worker is left
FLock2 == /\ pcM = "f_lock2" /\ lock = 0
          /\ lock' = MainId
          /\ pcM' = IF alive > 0 THEN "f_wait" ELSE "f_unlock2"
          /\ UNCHANGED <<mi, pcS, si, pcW, cur, queue, shutdown, threads, running, alive, task, freed>>
FCondWait == /\ pcM = "f_wait"
             /\ lock' = 0 /\ pcM' = "f_sleeping"
             /\ UNCHANGED <<mi, pcS, si, pcW, cur, queue, shutdown, threads, running, alive, task, freed>>
FSpurious == /\ pcM = "f_sleeping" /\ pcM' = "f_woken"
             /\ UNCHANGED <<mi, pcS, si, pcW, cur, lock, queue, shutdown, threads, running, alive, task, freed>>
FRelock == /\ pcM = "f_woken" /\ lock = 0
           /\ lock' = MainId
           /\ pcM' = IF alive > 0 THEN "f_wait" ELSE "f_unlock2"
           /\ UNCHANGED <<mi, pcS, si, pcW, cur, queue, shutdown, threads, running, alive, task, freed>>
FUnlock2 == /\ pcM = "f_unlock2"
            /\ lock' = 0 /\ pcM' = "f_cdestroy"
            /\ UNCHANGED <<mi, pcS, si, pcW, cur, queue, shutdown, threads, running, alive, task, freed>>

FCondDestroy == /\ pcM = "f_cdestroy" /\ pcM' = "f_mdestroy"
                /\ UNCHANGED <<mi, pcS, si, pcW, cur, lock, queue, shutdown, threads, running, alive, task, freed>>

\* pthread_mutex_destroy, then the queue is freed (queued tasks are discarded), the thread list, the pool; free returns
FMutexDestroy == /\ pcM = "f_mdestroy"
                 /\ task' = [t \in Tasks |-> IF task[t] = "queued" /\ (\E i \in 1..Len(queue) : queue[i] = t) THEN "discarded" ELSE task[t]]
                 /\ queue' = <<>> /\ freed' = TRUE /\ pcM' = "returned"
                 /\ UNCHANGED <<mi, pcS, si, pcW, cur, lock, shutdown, threads, running, alive>>

Next == \/ \E w \in Workers : \/ MCreate(w) \/ WLock(w) \/ WCondWait(w) \/ WSpurious(w) \/ WRelock(w) \/ WUnlockRun(w)
                              \/ WTaskBegin(w) \/ WTaskEnd(w) \/ WExitBcast(w) \/ WExitUnlock(w) \/ FJoin(w)
                              \/ WNLock(w) \/ WNRefuse(w) \/ WNUnlock(w)
                              \/ \E w2 \in Workers : WNCreate(w, w2)
                              \/ \E w2 \in Workers \cup {0} : WNSignal(w, w2)
        \/ MStart \/ MJoinSubs
        \/ \E s \in Subs : \/ ALock(s) \/ AUnlock(s)
                           \/ \E w \in Workers : ACreate(s, w)
                           \/ \E w \in Workers \cup {0} : ASignal(s, w)
        \/ FLock \/ FBroadcast \/ FUnlock \/ FLock2 \/ FCondWait \/ FSpurious \/ FRelock \/ FUnlock2
        \/ FCondDestroy \/ FMutexDestroy

Spec == Init /\ [][Next]_vars

\* progress: every thread that can take a step infinitely often eventually takes it (strong fairness per thread: a mutex may
\* be contended, but no thread is starved forever); spurious wake-ups are never needed for progress (no fairness on them)
WorkerActs(w) == \/ WLock(w) \/ WCondWait(w) \/ WRelock(w) \/ WUnlockRun(w) \/ WTaskBegin(w) \/ WTaskEnd(w)
                 \/ WExitBcast(w) \/ WExitUnlock(w)
                 \/ WNLock(w) \/ WNRefuse(w) \/ WNUnlock(w) \/ (\E w2 \in Workers : WNCreate(w, w2)) \/ (\E w2 \in Workers \cup {0} : WNSignal(w, w2))
SubActs(s) == \/ ALock(s) \/ AUnlock(s) \/ (\E w \in Workers : ACreate(s, w)) \/ (\E w \in Workers \cup {0} : ASignal(s, w))
MainActs == \/ (\E w \in Workers : MCreate(w) \/ FJoin(w)) \/ MStart \/ MJoinSubs
            \/ FLock \/ FBroadcast \/ FUnlock \/ FLock2 \/ FCondWait \/ FRelock \/ FUnlock2 \/ FCondDestroy \/ FMutexDestroy
FairSpec == /\ Spec
            /\ \A w \in Workers : SF_vars(WorkerActs(w))
            /\ \A s \in Subs : SF_vars(SubActs(s))
            /\ SF_vars(MainActs)

(* ------------------------------- monitors (C06) ------------------------------- *)
Created == Range(threads)
TypeOK == /\ lock \in {0, MainId} \cup {SubId(s) : s \in Subs} \cup Workers
          /\ task \in [Tasks -> {"new", "queued", "running", "done", "discarded"}]
          /\ running \in 0..N /\ alive \in 0..N

\* at most once, with the task it was submitted as; never after being discarded
ExactlyOnce == [][\A t \in Tasks : /\ (task'[t] = "running" /\ task[t] # "running") => task[t] = "queued"
                                    /\ (task[t] = "done" => task'[t] = "done")
                                    /\ (task[t] = "discarded" => task'[t] = "discarded")]_vars
\* bounded parallelism
Parallelism == Cardinality({t \in Tasks : task[t] = "running"}) <= N
\* what free guarantees when it returns
\* (a follow-up task refused by a pool that is shutting down was never accepted: it stays "new")
FreeSemantics == pcM = "returned" =>
                    /\ \A t \in Tasks : task[t] \in {"done", "discarded"} \/ (t \notin SubTasks /\ task[t] = "new")
                    /\ (WaitAll => \A t \in Tasks : task[t] = "done" \/ (t \notin SubTasks /\ task[t] = "new"))
\* tasks that had not started when a no-wait free began are never run afterwards: nothing runs after free returned
NothingRunsAfterFree == [][pcM = "returned" => task' = task]_vars
\* after free returned no pool thread touches the pool again
NoTouchAfterFree == freed => \A w \in Created : pcW[w] = "exited"
\* condition variable / mutex are destroyed only when nobody uses them
DestroyOK == /\ (pcM \in {"f_mdestroy", "returned"} => \A w \in Workers : pcW[w] \notin {"condwait", "sleeping", "woken"})
             /\ (pcM = "returned" => lock = 0)
\* lock discipline: pool fields are only changed by the lock holder (by construction of the actions); the holder is unique
LockHolderSane == \A w \in Workers : pcW[w] \in {"condwait", "unlock_run", "exit_bcast", "exit_unlock", "n_refuse", "n_create", "n_signal", "n_unlock"} => lock = w
\* no deadlock: the only states without a successor are complete shutdowns
Terminal == pcM = "returned" /\ \A w \in Created : pcW[w] = "exited"
DeadlockFree == (~ENABLED Next) => Terminal
\* liveness (FairSpec): free eventually returns
Terminates == <>(pcM = "returned")
=============================================================================
