\* context lifecycle focus (C07): non-persistent context, register/deregister/finalize/loop from top level and callbacks
CONSTANTS
  Mods = {"A", "B"}
  Order <- Order2
  Collide = FALSE
  Hooks <- Hooks_ctx
  Flags <- Flags_none
  CtxPersist = FALSE
  Topics = {"t1"}
  Pats = {"t1"}
  MaxPay = 1
  Cap = 2
  MaxNest = 1
  Ops = {"CtxRegister", "CtxDeregister", "CtxFinalize", "Dispatch", "CtxQuit", "ModRegister", "ModDeregister", "ModStart", "ModPause", "ModStop", "DropRef", "Tell"}
  CbOps = {"CtxDeregister", "CtxFinalize", "CtxQuit", "ModRegister", "ModDeregister", "ModStart"}
  EvalVals = {TRUE, FALSE}
  Prios = {"N"}
  BatchSizes = {}
  UnstashNs = {}
  HandlerIds = {}
  Kinds = {}
  Keys = {1}
  BadKeys = {}
  SrcOpts = {}
  EvKinds = {"ps"}
  MaxBatch = 3
  Errnos = {}
  TbVals = {}
  TickVals = {}
  Targets = {"A", "B"}
  SubTargets = {"A", "B"}
  AutoVals = {TRUE, FALSE}
  SubOneshot = {FALSE}
  UdVals = {0}
  Senders = {"A", "B"}
  QuitCodes = {0, 1}
  ForeignOps = {}
  MaxRefs = 1
  MaxHeld = 0
  PoolSize = 16
  Setup = ""
INIT Init
NEXT Next
CHECK_DEADLOCK FALSE
INVARIANTS TypeOK C01_RunningCount C01_NoHandlerUnlessRunning C07_NoCtxNoModules C02_CopyAccounting C02_NoMailUnlessActive
PROPERTIES C07_NoJoinAfterFinalize
