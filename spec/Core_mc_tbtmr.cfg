\* token bucket and user timers (C18, C09): set-up = 2 RUNNING modules; A has a user timer whose period equals the refill period of the bucket; the bucket is configured, re-configured and removed while the timer is registered, in every order
CONSTANTS
  Mods = {"A", "B"}
  Order <- Order2
  Collide = FALSE
  Hooks <- Hooks_none2
  Flags <- Flags_none
  CtxPersist = TRUE
  Topics = {"t1"}
  Pats = {"t1"}
  MaxPay = 1
  Cap = 2
  MaxNest = 1
  Ops = {"CtxDeregister", "DropRef", "Dispatch", "CtxQuit", "SetTokenBucket", "TbTick", "TmrFire", "SrcRegister", "SrcDeregister", "ModStop", "ModStart"}
  CbOps = {}
  EvalVals = {TRUE}
  Prios = {"N"}
  BatchSizes = {2}
  UnstashNs = {}
  HandlerIds = {1}
  Kinds = {"tmr"}
  Keys = {1}
  BadKeys = {}
  SrcOpts <- Opts_plain
  EvKinds = {"ps", "tb", "tmr"}
  MaxBatch = 2
  Errnos = {}
  TbVals <- Tb_vals2
  TickVals = {}
  Targets = {"A"}
  SubTargets = {"A"}
  AutoVals = {TRUE}
  SubOneshot = {FALSE}
  UdVals = {0}
  Senders = {"A"}
  QuitCodes = {1}
  ForeignOps = {}
  MaxRefs = 1
  MaxHeld = 0
  PoolSize = 16
  Setup = "loop2"
INIT Init
NEXT Next
CHECK_DEADLOCK FALSE
INVARIANTS TypeOK C01_RunningCount C01_NoHandlerUnlessRunning C07_NoCtxNoModules C02_AutoFree C02_CopyAccounting C02_NoMailUnlessActive C13_ClearedOnStop C09_KeyedSet C09_DroppedOnStop C20_RegisteredOpen C18_TokensBounded
PROPERTIES C18_Accounting
