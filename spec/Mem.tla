-------------------------------- MODULE Mem --------------------------------
(* Reference-counted blocks (Lib/mem/mem.c) - property C10.
   A population of blocks; a block created with a child owns one reference on the child, which its
   destructor drops (nested destruction).  `held[b]` = references owned by the user program,
   refs[b] = held[b] + (1 if a live parent owns it).
   obs = <<ret>> \o log, log = allocator/destructor events of this step in order:
         10+b = destructor ran on b,  20+b = b's memory returned to the allocator.            *)
EXTENDS Integers, Sequences, FiniteSets, TLC

CONSTANTS Blocks,     \* block ids 1..N
          Sizes,      \* requested sizes (bytes)
          MaxRefs

VARIABLES st,     \* st[b] \in {"dead", "live"}   (dead = not (any longer) existing)
          refs, held, size, dt, kid, par,
          obs

vars == <<st, refs, held, size, dt, kid, par, obs>>

Init == /\ st = [b \in Blocks |-> "dead"]
        /\ refs = [b \in Blocks |-> 0]
        /\ held = [b \in Blocks |-> 0]
        /\ size = [b \in Blocks |-> 0]
        /\ dt = [b \in Blocks |-> FALSE]
        /\ kid = [b \in Blocks |-> 0]
        /\ par = [b \in Blocks |-> 0]
        /\ obs = <<0>>

\* create block b (fresh or recycled id) with one reference; c # 0: b's destructor will drop one reference on c,
\* which the program hands over to b (so the program must hold one)
New(b, s, d, c) ==
    /\ st[b] # "live"
    /\ c # b
    /\ (c # 0 => (d /\ st[c] = "live" /\ held[c] > 0 /\ par[c] = 0))
    /\ st' = [st EXCEPT ![b] = "live"]
    /\ refs' = [refs EXCEPT ![b] = 1]
    /\ held' = IF c = 0 THEN [held EXCEPT ![b] = 1] ELSE [held EXCEPT ![b] = 1, ![c] = held[c] - 1]
    /\ size' = [size EXCEPT ![b] = s]
    /\ dt' = [dt EXCEPT ![b] = d]
    /\ kid' = [kid EXCEPT ![b] = c]
    /\ par' = IF c = 0 THEN par ELSE [par EXCEPT ![c] = b]
    /\ obs' = <<b>>

Ref(b) == /\ st[b] = "live" /\ held[b] > 0 /\ refs[b] < MaxRefs
          /\ refs' = [refs EXCEPT ![b] = refs[b] + 1]
          /\ held' = [held EXCEPT ![b] = held[b] + 1]
          /\ obs' = <<b>>
          /\ UNCHANGED <<st, size, dt, kid, par>>

\* drop one reference of b in state s = [refs, st, par, log]; destructor (if any) runs first, on the still-live
\* block, drops the child, and only then is the memory released
RECURSIVE Drop(_, _)
Drop(b, s) ==
    IF s.refs[b] > 1 THEN [s EXCEPT !.refs[b] = s.refs[b] - 1]
    ELSE LET s1 == [s EXCEPT !.refs[b] = 0, !.log = IF dt[b] THEN Append(s.log, 1000 + b) ELSE s.log]
             s2 == IF dt[b] /\ kid[b] # 0 THEN Drop(kid[b], [s1 EXCEPT !.par[kid[b]] = 0]) ELSE s1
         IN [s2 EXCEPT !.st[b] = "dead", !.log = Append(s2.log, 2000 + b)]

DoUnref(b) == LET r == Drop(b, [refs |-> refs, st |-> st, par |-> par, log |-> <<>>]) IN
              /\ refs' = r.refs /\ st' = r.st /\ par' = r.par
              /\ held' = [held EXCEPT ![b] = held[b] - 1]
              /\ obs' = <<0>> \o r.log
              \* attributes of blocks that died are forgotten (keeps the bounded state space small)
              /\ size' = [x \in Blocks |-> IF r.st[x] = "dead" THEN 0 ELSE size[x]]
              /\ dt' = [x \in Blocks |-> IF r.st[x] = "dead" THEN FALSE ELSE dt[x]]
              /\ kid' = [x \in Blocks |-> IF r.st[x] = "dead" THEN 0 ELSE kid[x]]

Unref(b)  == st[b] = "live" /\ held[b] > 0 /\ DoUnref(b)
Unrefp(b) == st[b] = "live" /\ held[b] > 0 /\ DoUnref(b)     \* through m_mem_unrefp: also nulls the caller's pointer

SizeOf(b) == /\ st[b] = "live"
             /\ obs' = <<size[b]>>
             /\ UNCHANGED <<st, refs, held, size, dt, kid, par>>

\* null arguments are tolerated: no effect, null/zero result
NullOp(k) == /\ k \in {"ref", "unref", "unrefp", "unrefp_null", "size"}
             /\ obs' = <<0>>
             /\ UNCHANGED <<st, refs, held, size, dt, kid, par>>

Next == \/ \E b \in Blocks, s \in Sizes, d \in BOOLEAN, c \in Blocks \cup {0} : New(b, s, d, c)
        \/ \E b \in Blocks : Ref(b) \/ Unref(b) \/ Unrefp(b) \/ SizeOf(b)
        \/ \E k \in {"ref", "unref", "unrefp", "unrefp_null", "size"} : NullOp(k)

Spec == Init /\ [][Next]_vars

(* ------------------------------- monitors (C10) ------------------------------- *)
TypeOK == /\ st \in [Blocks -> {"live", "dead"}]
          /\ refs \in [Blocks -> 0..MaxRefs]

\* alive exactly while referenced
AliveIffReferenced == \A b \in Blocks : (st[b] = "live") <=> (refs[b] >= 1)
RefAccounting == \A b \in Blocks : st[b] = "live" => refs[b] = held[b] + (IF par[b] # 0 THEN 1 ELSE 0)

Count(s, x) == Cardinality({i \in 1..Len(s) : s[i] = x})
Log == Tail(obs)
\* per step: a block is destroyed/freed at most once, freed iff it died in this step, destructor iff it has one,
\* destructor strictly before the release of the same block, and nothing happens to blocks that stay alive
StepDiscipline ==
    \A b \in Blocks :
        /\ Count(Log, 1000 + b) <= 1 /\ Count(Log, 2000 + b) <= 1
        /\ (Count(Log, 1000 + b) = 1 => Count(Log, 2000 + b) = 1)
        /\ (Count(Log, 2000 + b) = 1 => st[b] = "dead")
        /\ (Count(Log, 1000 + b) = 1 =>
              (CHOOSE i \in 1..Len(Log) : Log[i] = 1000 + b) < (CHOOSE i \in 1..Len(Log) : Log[i] = 2000 + b))
        /\ (st[b] = "live" => Count(Log, 1000 + b) = 0 /\ Count(Log, 2000 + b) = 0)

\* a block dies only in the step that drops its last reference (action property)
DiesOnlyAtLastUnref ==
    [][\A b \in Blocks : (st[b] = "live" /\ st'[b] = "dead") =>
          /\ Count(Tail(obs'), 2000 + b) = 1
          /\ (dt[b] <=> Count(Tail(obs'), 1000 + b) = 1)      \* destructor iff the block has one
          /\ refs[b] = 1 \/ par[b] # 0]_vars
=============================================================================
