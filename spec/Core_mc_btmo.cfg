\* batch timeout (C13): set-up = 2 RUNNING modules; A batches by timeout only or by size 2 + timeout; B tells A; the timeout expires with and without pending events; re-configuration, stop
CONSTANTS
  Mods = {"A", "B"}
  Order <- Order2
  Collide = FALSE
  Hooks <- Hooks_none2
  Flags <- Flags_none
  CtxPersist = TRUE
  Topics = {"t1"}
  Pats = {}
  MaxPay = 2
  Cap = 2
  MaxNest = 1
  Ops = {"CtxDeregister", "DropRef", "Dispatch", "CtxQuit", "SetBatchTimeout", "BtFire", "SetBatchSize", "Tell", "ModStop", "ModPause", "ModResume"}
  CbOps = {}
  EvalVals = {TRUE}
  Prios = {"N"}
  BatchSizes = {0, 2}
  UnstashNs = {}
  HandlerIds = {}
  Kinds = {}
  Keys = {1}
  BadKeys = {}
  SrcOpts <- Opts_plain
  EvKinds = {"ps", "bt"}
  MaxBatch = 2
  Errnos = {}
  TbVals = {}
  TickVals = {}
  Targets = {"A"}
  SubTargets = {"A"}
  AutoVals = {TRUE}
  SubOneshot = {FALSE}
  UdVals = {0}
  Senders = {"B"}
  QuitCodes = {1}
  ForeignOps = {}
  MaxRefs = 1
  MaxHeld = 0
  PoolSize = 16
  Setup = "loop2"
INIT Init
NEXT Next
CHECK_DEADLOCK FALSE
INVARIANTS TypeOK C01_RunningCount C01_NoHandlerUnlessRunning C07_NoCtxNoModules C02_AutoFree C02_CopyAccounting C02_NoMailUnlessActive C13_ClearedOnStop C09_KeyedSet C09_DroppedOnStop C20_RegisteredOpen C18_TokensBounded
PROPERTIES C18_Accounting
