\* retained source events (C04, C20): set-up = 2 RUNNING modules; events of one-shot / auto-close descriptor and timer sources retained by the program beyond the stop of their module, released later
CONSTANTS
  Mods = {"A", "B"}
  Order <- Order2
  Collide = FALSE
  Hooks <- Hooks_none2
  Flags <- Flags_none
  CtxPersist = TRUE
  Topics = {"t1"}
  Pats = {}
  MaxPay = 1
  Cap = 2
  MaxNest = 1
  Ops = {"CtxDeregister", "DropRef", "Dispatch", "CtxQuit", "SrcRegister", "FdReady", "FdDrain", "FdReopen", "TmrFire", "ModStop", "ModDeregister", "ReleaseEvt"}
  CbOps = {"RetainEvt", "ModStop", "FdDrain"}
  EvalVals = {TRUE}
  Prios = {"N"}
  BatchSizes = {}
  UnstashNs = {}
  HandlerIds = {}
  Kinds = {"fd", "tmr"}
  Keys = {1}
  BadKeys = {}
  SrcOpts <- Opts_all
  EvKinds = {"ps", "fd", "tmr"}
  MaxBatch = 2
  Errnos = {}
  TbVals = {}
  TickVals = {}
  Targets = {"A"}
  SubTargets = {"A"}
  AutoVals = {TRUE}
  SubOneshot = {FALSE}
  UdVals = {0}
  Senders = {"A"}
  QuitCodes = {1}
  ForeignOps = {}
  MaxRefs = 1
  MaxHeld = 2
  PoolSize = 16
  Setup = "loop2"
INIT Init
NEXT Next
CHECK_DEADLOCK FALSE
INVARIANTS TypeOK C01_RunningCount C01_NoHandlerUnlessRunning C07_NoCtxNoModules C02_AutoFree C02_CopyAccounting C02_NoMailUnlessActive C13_ClearedOnStop C09_KeyedSet C09_DroppedOnStop C20_RegisteredOpen
