------------------------------- MODULE MapAbs -------------------------------
(* String-keyed map (Lib/structs/map.c) as a dictionary - property C05.
   m is a function whose DOMAIN is the set of live keys.  Iteration order is an implementation choice:
   ItrNew(k)/ItrNext(k) carry the key the library moved to as a *choice* argument; the spec only requires
   that it is a live key not yet visited in this session, and that the session ends exactly when every
   live key has been visited (that IS "visits every live entry exactly once").                        *)
EXTENDS Integers, Sequences, FiniteSets, TLC

CONSTANTS Keys, Vals,      \* universe used by Next (traces may go beyond)
          DupKeys,         \* M_MAP_KEY_DUP: the map stores private copies of the keys
          AllowUpdate,     \* M_MAP_VAL_ALLOW_UPDATE
          HasDtor

VARIABLES m, it, fate, obs
vars == <<m, it, fate, obs>>

NEG == -1
Empty == [k \in {} |-> 0]
NoIt == [on |-> FALSE, cur |-> "", rm |-> FALSE, seen |-> {}]
Gone == IF HasDtor THEN "dead" ELSE "out"
Dom == DOMAIN m
Without(f, k) == [x \in (DOMAIN f) \ {k} |-> f[x]]
With(f, k, v) == [x \in (DOMAIN f) \cup {k} |-> IF x = k THEN v ELSE f[x]]
InUse(v) == \E k \in Dom : m[k] = v

Init == m = Empty /\ it = NoIt /\ fate = [v \in Vals |-> "out"] /\ obs = <<0>>

Mut == ~it.on

\* put: new key / update (only if allowed; destructor on the old value unless it is the same object) / refused without effect
Put(k, v) ==
    /\ Mut /\ fate[v] # "dead"
    /\ (fate[v] = "in" => (k \in Dom /\ m[k] = v))            \* a value object lives under one key at most
    /\ IF k \notin Dom
         THEN /\ m' = With(m, k, v) /\ fate' = [fate EXCEPT ![v] = "in"] /\ obs' = <<0>>
         ELSE IF AllowUpdate
           THEN /\ m' = With(m, k, v)
                /\ fate' = IF m[k] = v THEN fate ELSE [fate EXCEPT ![m[k]] = Gone, ![v] = "in"]
                /\ obs' = <<0>>
           ELSE /\ obs' = <<NEG>> /\ UNCHANGED <<m, fate>>
    /\ UNCHANGED it

Get(k) == /\ obs' = <<IF k \in Dom THEN m[k] ELSE 0>> /\ UNCHANGED <<m, it, fate>>
Contains(k) == /\ obs' = <<IF k \in Dom THEN 1 ELSE 0>> /\ UNCHANGED <<m, it, fate>>

Remove(k) == /\ Mut
             /\ IF k \in Dom
                  THEN m' = Without(m, k) /\ fate' = [fate EXCEPT ![m[k]] = Gone] /\ obs' = <<0>>
                  ELSE obs' = <<NEG>> /\ UNCHANGED <<m, fate>>
             /\ UNCHANGED it

ClearAll == /\ m' = Empty
            /\ fate' = [v \in Vals |-> IF fate[v] = "in" THEN Gone ELSE fate[v]]
            /\ obs' = <<0>>
Clear == Mut /\ ClearAll /\ UNCHANGED it
FreeNew == Mut /\ ClearAll /\ UNCHANGED it

\* callback iteration over all entries; the callback removes the current entry iff its key is in rm.
\* obs = <<ret, number of callback invocations>> \o multiset of visited keys is compared by the driver as "each live key once"
IterateRm(rm) == /\ Mut /\ Dom # {}
                 /\ m' = [x \in Dom \ rm |-> m[x]]
                 /\ fate' = [v \in Vals |-> IF \E k \in Dom \cap rm : m[k] = v THEN Gone ELSE fate[v]]
                 /\ obs' = <<0, Cardinality(Dom), 1>>          \* ret, #invocations, flag "every live key exactly once"
                 /\ UNCHANGED it
\* callback stops at the n-th invocation with a positive (ret 0) or negative value
IterateStop(n, neg) == /\ Dom # {} /\ n \in 1..Cardinality(Dom)
                       /\ obs' = <<IF neg THEN NEG ELSE 0, n>>
                       /\ UNCHANGED <<m, it, fate>>

ItrNew(k) == /\ ~it.on /\ Dom # {} /\ k \in Dom
             /\ it' = [on |-> TRUE, cur |-> k, rm |-> FALSE, seen |-> {k}]
             /\ obs' = <<1>> /\ UNCHANGED <<m, fate>>
ItrNewEmpty == /\ ~it.on /\ Dom = {} /\ obs' = <<0>> /\ UNCHANGED <<m, it, fate>>

\* k = the key the library moved to ("" = iteration ended)
ItrNext(k) == /\ it.on
              /\ IF Dom \subseteq it.seen
                   THEN k = "" /\ it' = NoIt
                   ELSE k \in Dom \ it.seen /\ it' = [on |-> TRUE, cur |-> k, rm |-> FALSE, seen |-> it.seen \cup {k}]
              /\ obs' = <<0>> /\ UNCHANGED <<m, fate>>

ItrGet == /\ it.on /\ ~it.rm /\ obs' = <<m[it.cur]>> /\ UNCHANGED <<m, it, fate>>
ItrRemove == /\ it.on /\ ~it.rm
             /\ m' = Without(m, it.cur) /\ fate' = [fate EXCEPT ![m[it.cur]] = Gone]
             /\ it' = [it EXCEPT !.rm = TRUE] /\ obs' = <<0>>
ItrDrop == /\ it.on /\ it' = NoIt /\ obs' = <<0>> /\ UNCHANGED <<m, fate>>

Next == \/ \E k \in Keys, v \in Vals : Put(k, v)
        \/ \E k \in Keys : Get(k) \/ Contains(k) \/ Remove(k) \/ ItrNew(k) \/ ItrNext(k)
        \/ ItrNext("") \/ ItrNewEmpty
        \/ Clear \/ FreeNew
        \/ \E rm \in SUBSET Keys : IterateRm(rm)
        \/ \E n \in 1..Cardinality(Keys), neg \in BOOLEAN : IterateStop(n, neg)
        \/ ItrGet \/ ItrRemove \/ ItrDrop
Spec == Init /\ [][Next]_vars

(* ------------------------------- monitors (C05) ------------------------------- *)
TypeOK == /\ DOMAIN m \subseteq Keys /\ \A k \in DOMAIN m : m[k] \in Vals
          /\ fate \in [Vals -> {"out", "in", "dead"}]
Dictionary == /\ \A v \in Vals : (fate[v] = "in") <=> InUse(v)
              /\ \A j, k \in Dom : (j # k) => m[j] # m[k]
DtorOnlyIfConfigured == \A v \in Vals : fate[v] = "dead" => HasDtor
\* never destroy a live value; a value dies only by being removed, replaced or cleared (action property)
DtorDiscipline == [][\A v \in Vals : (fate[v] # "dead" /\ fate'[v] = "dead") =>
                        (InUse(v) /\ ~(\E k \in DOMAIN m' : m'[k] = v))]_vars
\* refused put has no effect
RefusedPutNoEffect == [][(obs' = <<NEG>>) => (m' = m /\ fate' = fate)]_vars
\* private key copies: exactly one per live entry (what the allocator ledger must show)
KeyCopies == IF DupKeys THEN Cardinality(Dom) ELSE 0
=============================================================================
