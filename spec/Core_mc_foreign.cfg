\* thread confinement (C14): every module operation attempted from a foreign thread (with or without a context of its own) on a module in every state fails with a permission error and changes nothing; a module of another context cannot be addressed
CONSTANTS
  Mods = {"A", "B"}
  Order <- Order2
  Collide = FALSE
  Hooks <- Hooks_life
  Flags <- Flags_denyctxA
  CtxPersist = FALSE
  Topics = {"t1"}
  Pats = {"t1"}
  MaxPay = 1
  Cap = 2
  MaxNest = 1
  Ops = {"CtxRegister", "CtxDeregister", "Dispatch", "CtxQuit", "ModRegister", "ModDeregister", "ModStart", "ModPause", "ModStop", "DropRef", "ForeignCall", "ForeignTell"}
  CbOps = {"ForeignCall", "ForeignTell"}
  EvalVals = {TRUE}
  Prios = {"N"}
  BatchSizes = {}
  UnstashNs = {}
  HandlerIds = {}
  Kinds = {}
  Keys = {1}
  BadKeys = {}
  SrcOpts = {}
  EvKinds = {"ps"}
  MaxBatch = 3
  Errnos = {}
  TbVals = {}
  TickVals = {}
  Targets = {"A", "B"}
  SubTargets = {"A", "B"}
  AutoVals = {TRUE, FALSE}
  SubOneshot = {FALSE}
  UdVals = {0}
  Senders = {"A", "B"}
  QuitCodes = {0, 1}
  ForeignOps = {"start", "pause", "resume", "stop", "deregister", "subscribe", "unsubscribe", "tell", "publish", "pill", "become", "unbecome", "unstash", "batchsize", "batchtimeout", "tokenbucket", "fdreg", "fddereg", "srclen", "stats", "bind"}
  MaxRefs = 1
  MaxHeld = 0
  PoolSize = 16
  Setup = ""
INIT Init
NEXT Next
CHECK_DEADLOCK FALSE
INVARIANTS TypeOK C01_RunningCount C01_NoHandlerUnlessRunning C07_NoCtxNoModules C02_AutoFree C02_CopyAccounting C02_NoMailUnlessActive
