\* references held by the program (C04): set-up = 2 RUNNING modules; events retained inside handlers and released later in any order (also after their module stopped / was deregistered / the context was released), extra references on module objects, zombies
CONSTANTS
  Mods = {"A", "B"}
  Order <- Order2
  Collide = FALSE
  Hooks <- Hooks_none2
  Flags <- Flags_none
  CtxPersist = TRUE
  Topics = {"t1"}
  Pats = {}
  MaxPay = 2
  Cap = 2
  MaxNest = 1
  Ops = {"CtxDeregister", "DropRef", "Dispatch", "CtxQuit", "Tell", "ModStop", "ModDeregister", "RefMod", "ReleaseEvt"}
  CbOps = {"RetainEvt", "ModDeregister", "ReleaseEvt"}
  EvalVals = {TRUE}
  Prios = {"N"}
  BatchSizes = {}
  UnstashNs = {}
  HandlerIds = {}
  Kinds = {}
  Keys = {1}
  BadKeys = {}
  SrcOpts = {}
  EvKinds = {"ps"}
  MaxBatch = 3
  Errnos = {}
  TbVals = {}
  TickVals = {}
  Targets = {"A", "B"}
  SubTargets = {"A", "B"}
  AutoVals = {TRUE, FALSE}
  SubOneshot = {FALSE}
  UdVals = {0}
  Senders = {"A"}
  QuitCodes = {1}
  ForeignOps = {}
  MaxRefs = 2
  MaxHeld = 2
  PoolSize = 16
  Setup = "loop2"
INIT Init
NEXT Next
CHECK_DEADLOCK FALSE
INVARIANTS TypeOK C01_RunningCount C01_NoHandlerUnlessRunning C07_NoCtxNoModules C02_AutoFree C02_CopyAccounting C02_NoMailUnlessActive
