\* priorities and batching (C13): set-up = 2 RUNNING modules in a started loop; A subscribes t1 with low/normal/high priority, B publishes / tells; batch sizes 0,2,3; pause/resume/stop/start of A; quit + final flush
CONSTANTS
  Mods = {"A", "B"}
  Order <- Order2
  Collide = FALSE
  Hooks <- Hooks_none2
  Flags <- Flags_none
  CtxPersist = TRUE
  Topics = {"t1"}
  Pats = {"t1"}
  MaxPay = 2
  Cap = 3
  MaxNest = 0
  Ops = {"CtxDeregister", "DropRef", "Dispatch", "CtxQuit", "ModStop", "Publish", "Subscribe", "SetBatchSize"}
  CbOps = {}
  EvalVals = {TRUE}
  Prios = {"L", "N", "H"}
  BatchSizes = {0, 2}
  UnstashNs = {}
  HandlerIds = {}
  Kinds = {}
  Keys = {1}
  BadKeys = {}
  SrcOpts = {}
  EvKinds = {"ps"}
  MaxBatch = 3
  Errnos = {}
  TbVals = {}
  TickVals = {}
  Targets = {"A"}
  SubTargets = {"A"}
  AutoVals = {TRUE}
  SubOneshot = {FALSE}
  UdVals = {0}
  Senders = {"B"}
  QuitCodes = {1}
  ForeignOps = {}
  MaxRefs = 1
  MaxHeld = 0
  PoolSize = 16
  Setup = "loop2"
INIT Init
NEXT Next
CHECK_DEADLOCK FALSE
INVARIANTS TypeOK C01_RunningCount C01_NoHandlerUnlessRunning C07_NoCtxNoModules C02_AutoFree C02_CopyAccounting C02_NoMailUnlessActive C13_ClearedOnStop C13_HeldBackForAReason C16_NoHighStashed
