\* lifecycle x context x permissions x pub/sub, sampled (TLC simulation mode): non-persistent context registered / finalised / torn down from the top level and from callbacks nested two deep, replaceable / persistent / denied modules, evaluation passes with refusing hooks, messages in flight across all of it, module references and retained events
CONSTANTS
  Mods = {"A", "B"}
  Order <- Order2
  Collide = FALSE
  Hooks <- Hooks_life
  Flags <- Flags_perm
  CtxPersist = FALSE
  Topics = {"t1"}
  Pats = {"t1", "t.", "MOD_STOPPED", "CTX_STARTED"}
  MaxPay = 2
  Cap = 2
  MaxNest = 2
  Ops = {"CtxRegister", "CtxDeregister", "CtxFinalize", "CtxQuit", "Dispatch", "ModRegister", "ModDeregister", "ModStart", "ModPause", "ModResume", "ModStop", "DropRef", "RefMod", "Tell", "Publish", "Broadcast", "Pill", "PublishSys", "Subscribe", "Unsubscribe", "ReleaseEvt"}
  CbOps = {"CtxRegister", "CtxDeregister", "CtxFinalize", "CtxQuit", "ModRegister", "ModDeregister", "ModStart", "ModPause", "ModResume", "ModStop", "Tell", "Publish", "Broadcast", "Pill", "Subscribe", "Unsubscribe", "RetainEvt", "RefMod"}
  EvalVals = {TRUE, FALSE}
  Prios = {"N"}
  BatchSizes = {}
  UnstashNs = {}
  HandlerIds = {}
  Kinds = {}
  Keys = {1}
  BadKeys = {}
  SrcOpts = {}
  EvKinds = {"ps"}
  MaxBatch = 2
  Errnos = {}
  TbVals = {}
  TickVals = {}
  Targets = {"A", "B"}
  SubTargets = {"A", "B"}
  AutoVals = {TRUE, FALSE}
  SubOneshot = {FALSE}
  UdVals = {0}
  Senders = {"A", "B"}
  QuitCodes = {1}
  ForeignOps = {}
  MaxRefs = 2
  MaxHeld = 1
  PoolSize = 16
  Setup = ""
INIT Init
NEXT Next
CHECK_DEADLOCK FALSE
INVARIANTS TypeOK C01_RunningCount C01_NoHandlerUnlessRunning C07_NoCtxNoModules C02_AutoFree C02_CopyAccounting C02_NoMailUnlessActive C13_ClearedOnStop C09_KeyedSet C09_DroppedOnStop C04_ObjectLifetime
PROPERTIES C07_NoJoinAfterFinalize
