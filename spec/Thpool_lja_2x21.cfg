\* bounded exhaustive configuration of Thpool.tla: N=2 Subs={1, 2} TaskOf=T_2x21 Lazy=TRUE Detached=FALSE WaitAll=TRUE
CONSTANTS
  N = 2
  Subs = {1, 2}
  TaskOf <- T_2x21
  Follow <- F_none
  Lazy = TRUE
  Detached = FALSE
  WaitAll = TRUE
INIT Init
NEXT Next
CHECK_DEADLOCK FALSE
INVARIANTS TypeOK Parallelism FreeSemantics NoTouchAfterFree DestroyOK LockHolderSane DeadlockFree
PROPERTIES ExactlyOnce NothingRunsAfterFree
