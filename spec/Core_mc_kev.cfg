\* events of signal, path and pid sources (C03, C20): one-shot variants, signals pending for the whole process across pause / deregistration, watches that lose what was pending when their module pauses, an exited process reported at every poll; batches of up to 2 events in every order; pause/stop/deregistration from handlers of the same batch
CONSTANTS
  Mods = {"A", "B"}
  Order <- Order2
  Collide = FALSE
  Hooks <- Hooks_none2
  Flags <- Flags_none
  CtxPersist = TRUE
  Topics = {"t1"}
  Pats = {}
  MaxPay = 1
  Cap = 2
  MaxNest = 1
  Ops = {"CtxDeregister", "DropRef", "Dispatch", "CtxQuit", "SrcRegister", "SrcDeregister", "SgnRaise", "PathTouch", "PidExit", "ModPause", "ModResume", "ModStop", "ModStart"}
  CbOps = {"ModStop", "ModPause", "SrcDeregister", "SrcRegister"}
  EvalVals = {TRUE}
  Prios = {"N"}
  BatchSizes = {}
  UnstashNs = {}
  HandlerIds = {}
  Kinds = {"sgn", "path", "pid"}
  Keys = {1}
  BadKeys = {}
  SrcOpts <- Opts_os
  EvKinds = {"sgn", "path", "pid"}
  MaxBatch = 2
  Errnos = {}
  TbVals = {}
  TickVals = {}
  Targets = {"A"}
  SubTargets = {"A"}
  AutoVals = {}
  SubOneshot = {FALSE}
  UdVals = {0}
  Senders = {}
  QuitCodes = {1}
  ForeignOps = {}
  MaxRefs = 1
  MaxHeld = 0
  PoolSize = 16
  Setup = "loop2"
INIT Init
NEXT Next
CHECK_DEADLOCK FALSE
INVARIANTS TypeOK C01_RunningCount C01_NoHandlerUnlessRunning C07_NoCtxNoModules C02_AutoFree C02_CopyAccounting C02_NoMailUnlessActive C13_ClearedOnStop C09_KeyedSet C09_DroppedOnStop C20_RegisteredOpen C04_NoOrphanTask C03_PendingHasSource
