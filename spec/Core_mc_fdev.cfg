\* events of descriptor and timer sources (C03, C20): set-up = 2 RUNNING modules; one-shot / auto-close options, descriptors made readable / drained / replaced, timers expiring, batches of up to 2 events in every order, errno left behind by handlers, pause/stop/deregistration from handlers of the same batch
CONSTANTS
  Mods = {"A", "B"}
  Order <- Order2
  Collide = FALSE
  Hooks <- Hooks_none2
  Flags <- Flags_none
  CtxPersist = TRUE
  Topics = {"t1"}
  Pats = {}
  MaxPay = 1
  Cap = 2
  MaxNest = 1
  Ops = {"CtxDeregister", "DropRef", "Dispatch", "DispatchIntr", "CtxQuit", "SrcRegister", "SrcDeregister", "FdReady", "FdHup", "FdDrain", "FdReopen", "TmrFire", "ModPause", "ModResume", "ModStop", "Tell"}
  CbOps = {"SetErrno", "FdDrain", "ModStop", "SrcDeregister"}
  EvalVals = {TRUE}
  Prios = {"N"}
  BatchSizes = {}
  UnstashNs = {}
  HandlerIds = {}
  Kinds = {"fd", "tmr"}
  Keys = {1}
  BadKeys = {}
  SrcOpts <- Opts_all
  EvKinds = {"ps", "fd", "tmr"}
  MaxBatch = 2
  Errnos = {11, 2}
  TbVals = {}
  TickVals = {}
  Targets = {"A"}
  SubTargets = {"A"}
  AutoVals = {TRUE}
  SubOneshot = {FALSE}
  UdVals = {0}
  Senders = {"A"}
  QuitCodes = {1}
  ForeignOps = {}
  MaxRefs = 1
  MaxHeld = 0
  PoolSize = 16
  Setup = "loop2"
INIT Init
NEXT Next
CHECK_DEADLOCK FALSE
INVARIANTS TypeOK C01_RunningCount C01_NoHandlerUnlessRunning C07_NoCtxNoModules C02_AutoFree C02_CopyAccounting C02_NoMailUnlessActive C13_ClearedOnStop C09_KeyedSet C09_DroppedOnStop C20_RegisteredOpen
