-------------------------------- MODULE Bst --------------------------------
(* Ordered set (Lib/structs/bst.c) - property C11.  Abstract state: a set of elements totally ordered by
   the comparator (elements e, f compare equal iff KeyOf(e) = KeyOf(f), else by key), an in-order iterator
   and element fates.  Tree shape is deliberately NOT modelled: pre/post-order consistency is a predicate
   over observed traversals (ConsistentBST below), evaluated by TLC on recorded traces.               *)
EXTENDS Integers, Sequences, FiniteSets, TLC

CONSTANTS Elems,     \* element ids (positive integers)
          HasDtor,
          UserCmp    \* TRUE: user comparator, KeyOf(e) = (e+1) \div 2; FALSE: default (pointer identity/order)

VARIABLES elems, it, fate, obs, vis, bad
vars == <<elems, it, fate, obs, vis, bad>>

KeyOf(e) == IF UserCmp THEN (e + 1) \div 2 ELSE e
NEG == -1
NoIt == [on |-> FALSE, lo |-> 0, rm |-> FALSE]
Gone == IF HasDtor THEN "dead" ELSE "out"

Init == /\ elems = {} /\ it = NoIt /\ fate = [e \in Elems |-> "out"] /\ obs = <<0>> /\ vis = {} /\ bad = FALSE

Mut == ~it.on
Equal(d) == {x \in elems : KeyOf(x) = KeyOf(d)}
MinAbove(k) == LET S == {x \in elems : KeyOf(x) > k} IN
               IF S = {} THEN 0 ELSE CHOOSE x \in S : \A y \in S : KeyOf(x) <= KeyOf(y)

\* ascending sequence of a finite set of elements
RECURSIVE Sorted(_)
Sorted(S) == IF S = {} THEN <<>>
             ELSE LET m == CHOOSE x \in S : \A y \in S : KeyOf(x) <= KeyOf(y) IN <<m>> \o Sorted(S \ {m})

Insert(e) == /\ Mut /\ fate[e] = "out"
             /\ IF Equal(e) # {}
                  THEN obs' = <<NEG>> /\ UNCHANGED <<elems, fate>>
                  ELSE obs' = <<0>> /\ elems' = elems \cup {e} /\ fate' = [fate EXCEPT ![e] = "in"]
             /\ UNCHANGED <<it, vis, bad>>

Remove(d) == /\ Mut /\ fate[d] # "dead"
             /\ IF Equal(d) = {}
                  THEN obs' = <<NEG>> /\ UNCHANGED <<elems, fate>>
                  ELSE LET x == CHOOSE x \in Equal(d) : TRUE IN
                       obs' = <<0>> /\ elems' = elems \ {x} /\ fate' = [fate EXCEPT ![x] = Gone]
             /\ UNCHANGED <<it, vis, bad>>

Find(d) == /\ fate[d] # "dead"
           /\ obs' = <<IF Equal(d) = {} THEN 0 ELSE CHOOSE x \in Equal(d) : TRUE>>
           /\ UNCHANGED <<elems, it, fate, vis, bad>>

Clear == /\ Mut /\ elems' = {} /\ fate' = [e \in Elems |-> IF fate[e] = "in" THEN Gone ELSE fate[e]]
         /\ obs' = <<0>> /\ UNCHANGED <<it, vis, bad>>
FreeNew == /\ Mut /\ elems' = {} /\ fate' = [e \in Elems |-> IF fate[e] = "in" THEN Gone ELSE fate[e]]
           /\ obs' = <<0>> /\ UNCHANGED <<it, vis, bad>>

\* in-order traversal through the callback API, stopping at the k-th element (k = 0: never)
InOrder(k, neg) == /\ elems # {} /\ k \in 0..Cardinality(Elems) /\ (k = 0 => ~neg)
                   /\ LET s == Sorted(elems)
                          n == IF k = 0 \/ k > Len(s) THEN Len(s) ELSE k
                          stopped == k # 0 /\ k <= Len(s)
                      IN obs' = <<IF stopped /\ neg THEN NEG ELSE 0>> \o SubSeq(s, 1, n)
                   /\ UNCHANGED <<elems, it, fate, vis, bad>>

\* pre- and post-order traversals: the driver reports 1 iff both are consistent with one binary search tree
\* whose in-order sequence is Sorted(elems) (predicate ConsistentBST, re-evaluated by TLC on traces)
Shape == /\ elems # {}
         /\ obs' = <<1>>
         /\ UNCHANGED <<elems, it, fate, vis, bad>>

ItrNew == /\ ~it.on
          /\ IF elems = {} THEN obs' = <<0>> /\ UNCHANGED <<it, vis, bad>>
             ELSE LET m == MinAbove(-1) IN
                  obs' = <<1>> /\ it' = [on |-> TRUE, lo |-> KeyOf(m), rm |-> FALSE] /\ vis' = {m} /\ bad' = bad
          /\ UNCHANGED <<elems, fate>>

ItrNext == /\ it.on
           /\ LET n == MinAbove(it.lo) IN
              IF n = 0 THEN it' = NoIt /\ vis' = {} /\ bad' = (bad \/ ~(elems \subseteq vis))
                       ELSE it' = [on |-> TRUE, lo |-> KeyOf(n), rm |-> FALSE] /\ vis' = vis \cup {n} /\ bad' = (bad \/ n \in vis)
           /\ obs' = <<0>>
           /\ UNCHANGED <<elems, fate>>

Cur == CHOOSE x \in elems : KeyOf(x) = it.lo
ItrGet == /\ it.on /\ ~it.rm /\ obs' = <<Cur>> /\ UNCHANGED <<elems, it, fate, vis, bad>>
ItrRemove == /\ it.on /\ ~it.rm
             /\ elems' = elems \ {Cur} /\ fate' = [fate EXCEPT ![Cur] = Gone]
             /\ it' = [it EXCEPT !.rm = TRUE] /\ obs' = <<0>>
             /\ UNCHANGED <<vis, bad>>
ItrDrop == /\ it.on /\ it' = NoIt /\ vis' = {} /\ obs' = <<0>> /\ UNCHANGED <<elems, fate, bad>>

Next == \/ \E e \in Elems : Insert(e) \/ Remove(e) \/ Find(e)
        \/ Clear \/ FreeNew \/ Shape
        \/ \E k \in 0..Cardinality(Elems), neg \in BOOLEAN : InOrder(k, neg)
        \/ ItrNew \/ ItrNext \/ ItrGet \/ ItrRemove \/ ItrDrop
Spec == Init /\ [][Next]_vars

(* ------------------------------- monitors (C11) ------------------------------- *)
TypeOK == elems \subseteq Elems /\ fate \in [Elems -> {"out", "in", "dead"}]
SetSemantics == /\ \A e \in Elems : (fate[e] = "in") <=> (e \in elems)
                /\ \A x, y \in elems : x # y => KeyOf(x) # KeyOf(y)         \* no two elements comparing equal
DtorOnlyIfConfigured == \A e \in Elems : fate[e] = "dead" => HasDtor
IteratorVisitsOnceAscending == ~bad
\* the destructor runs on the element actually removed, never on one that stays (action property)
RightTarget == [][\A e \in Elems : (fate[e] # "dead" /\ fate'[e] = "dead") => (e \in elems /\ e \notin elems')]_vars

(* ---- consistency of observed traversals with one binary search tree (used by BstTrace) ---- *)
\* Given pre-order p and in-order i (sequences of distinct keys), the post-order of the unique tree they determine.
RECURSIVE PostOf(_, _)
PostOf(p, i) ==
    IF Len(p) = 0 THEN <<>>
    ELSE LET r == p[1]
             k == CHOOSE j \in 1..Len(i) : i[j] = r
             nl == k - 1
         IN PostOf(SubSeq(p, 2, nl + 1), SubSeq(i, 1, nl)) \o PostOf(SubSeq(p, nl + 2, Len(p)), SubSeq(i, k + 1, Len(i))) \o <<r>>
RECURSIVE PreInOK(_, _)
PreInOK(p, i) ==     \* p is a pre-order of some binary tree with in-order i
    IF Len(p) # Len(i) THEN FALSE
    ELSE IF Len(p) = 0 THEN TRUE
    ELSE /\ \E j \in 1..Len(i) : i[j] = p[1]
         /\ LET k == CHOOSE j \in 1..Len(i) : i[j] = p[1]
                nl == k - 1
            IN /\ PreInOK(SubSeq(p, 2, nl + 1), SubSeq(i, 1, nl))
               /\ PreInOK(SubSeq(p, nl + 2, Len(p)), SubSeq(i, k + 1, Len(i)))
ConsistentBST(pre, inn, post) == PreInOK(pre, inn) /\ post = PostOf(pre, inn)
=============================================================================
