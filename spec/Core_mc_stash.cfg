\* stash / unstash (C16): set-up = 2 RUNNING modules in a started loop; B tells A; A stashes events inside its handler and unstashes n = 1, 2, SIZE_MAX from the top level and from handlers; stop/start
CONSTANTS
  Mods = {"A", "B"}
  Order <- Order2
  Collide = FALSE
  Hooks <- Hooks_none2
  Flags <- Flags_none
  CtxPersist = TRUE
  Topics = {"t1"}
  Pats = {}
  MaxPay = 2
  Cap = 2
  MaxNest = 1
  Ops = {"CtxDeregister", "DropRef", "Dispatch", "CtxQuit", "ModStop", "ModPause", "ModResume", "Tell", "Unstash"}
  CbOps = {"Stash", "Unstash"}
  EvalVals = {TRUE}
  Prios = {"N"}
  BatchSizes = {}
  UnstashNs = {1, 2, 9}
  HandlerIds = {}
  Kinds = {}
  Keys = {1}
  BadKeys = {}
  SrcOpts = {}
  EvKinds = {"ps"}
  MaxBatch = 3
  Errnos = {}
  TbVals = {}
  TickVals = {}
  Targets = {"A"}
  SubTargets = {"A"}
  AutoVals = {TRUE, FALSE}
  SubOneshot = {FALSE}
  UdVals = {0}
  Senders = {"A", "B"}
  QuitCodes = {1}
  ForeignOps = {}
  MaxRefs = 1
  MaxHeld = 0
  PoolSize = 16
  Setup = "loop2"
INIT Init
NEXT Next
CHECK_DEADLOCK FALSE
INVARIANTS TypeOK C01_RunningCount C01_NoHandlerUnlessRunning C07_NoCtxNoModules C02_AutoFree C02_CopyAccounting C02_NoMailUnlessActive C13_ClearedOnStop C13_HeldBackForAReason C16_NoHighStashed
