\* everything at once, sampled (TLC simulation mode, not enumerated): 3 modules with hooks, pub/sub with priorities and regular expressions, batching, stash, become, token bucket, descriptor / timer / signal / task sources, tick, retained events and module references, calls from every callback
CONSTANTS
  Mods = {"A", "B", "C"}
  Order <- Order3
  Collide = FALSE
  Hooks <- Hooks_mix
  Flags <- Flags_none
  CtxPersist = TRUE
  Topics = {"t1"}
  Pats = {"t1", "t.", "MOD_ST.", "CTX_STOPPED"}
  MaxPay = 3
  Cap = 2
  MaxNest = 1
  Ops = {"CtxRegister", "CtxDeregister", "CtxFinalize", "CtxQuit", "Dispatch", "DispatchIntr", "ModRegister", "ModDeregister", "ModStart", "ModPause", "ModResume", "ModStop", "DropRef", "RefMod", "Tell", "Publish", "Broadcast", "Pill", "PublishSys", "Subscribe", "Unsubscribe", "SetBatchSize", "SetBatchTimeout", "BtFire", "Unstash", "Become", "Unbecome", "SrcRegister", "SrcDeregister", "FdReady", "FdDrain", "TmrFire", "SgnRaise", "TaskFinish", "SetTokenBucket", "TbTick", "CtxSetTick", "TickFire", "ReleaseEvt"}
  CbOps = {"ModStart", "ModPause", "ModResume", "ModStop", "ModDeregister", "CtxQuit", "Tell", "Publish", "Broadcast", "Pill", "Subscribe", "Unsubscribe", "Stash", "Unstash", "Become", "Unbecome", "SrcRegister", "SrcDeregister", "FdDrain", "SetErrno", "RetainEvt", "SetBatchSize", "CtxSetTick"}
  EvalVals = {TRUE, FALSE}
  Prios = {"L", "N", "H"}
  BatchSizes = {0, 2}
  UnstashNs = {1, 9}
  HandlerIds = {1, 2}
  Kinds = {"fd", "tmr", "sgn", "task"}
  Keys = {1}
  BadKeys = {}
  SrcOpts <- Opts_all
  EvKinds = {"ps", "fd", "tmr", "sgn", "task", "tb", "bt", "tick"}
  MaxBatch = 2
  Errnos = {11}
  TbVals <- Tb_vals2
  TickVals = {0, 1}
  Targets = {"A", "B"}
  SubTargets = {"A", "B", "C"}
  AutoVals = {TRUE, FALSE}
  SubOneshot = {FALSE, TRUE}
  UdVals = {0}
  Senders = {"A", "B", "C"}
  QuitCodes = {1}
  ForeignOps = {}
  MaxRefs = 2
  MaxHeld = 1
  PoolSize = 16
  Setup = "loop3"
INIT Init
NEXT Next
CHECK_DEADLOCK FALSE
CONSTRAINT BqBound
INVARIANTS TypeOK C01_RunningCount C01_NoHandlerUnlessRunning C07_NoCtxNoModules C02_AutoFree C02_CopyAccounting C02_NoMailUnlessActive C13_ClearedOnStop C09_KeyedSet C09_DroppedOnStop C20_RegisteredOpen C04_NoOrphanTask C03_PendingHasSource C18_TokensBounded C16_NoHighStashed C04_ObjectLifetime
