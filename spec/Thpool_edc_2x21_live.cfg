\* liveness configuration (fairness, no state constraint): same constants as Thpool_edc_2x21.cfg
CONSTANTS
  N = 2
  Subs = {1, 2}
  TaskOf <- T_2x21
  Follow <- F_none
  Lazy = FALSE
  Detached = TRUE
  WaitAll = FALSE
SPECIFICATION FairSpec
CHECK_DEADLOCK FALSE
PROPERTIES Terminates
