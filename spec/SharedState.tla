---------------------------- MODULE SharedState ----------------------------
(* Process-wide state of libmodule (property C14: contexts living on different threads are independent, i.e. there
   is no unsynchronised access to shared library state).

   Each context, with its modules, sources, mailboxes and poll handle, is reachable only through the owning thread's
   thread-specific pointer: that is the state Core.tla models, one copy per thread.  What remains is the set of objects
   with static storage duration in the library's object files.  This module declares every such object that may exist
   and the discipline under which it is shared; tools/check C14 extracts the writable static-storage symbols from the
   object files built from the current tree (nm) and fails on any symbol not declared here.

   disciplines:
     "init"  written only before any context exists (library constructor / m_set_memhook in m_on_boot), read-only afterwards
     "once"  internally synchronised by pthread_once / pthread_key_* (thread-specific pointer machinery)
     "const" never written after static initialisation (tables of function pointers / names; writable only by accident of
             their declared type)                                                                                      *)
EXTENDS Naturals, FiniteSets

Shared == {
  [sym |-> "memhook",               obj |-> "utils_mem.c",  discipline |-> "init"],
  [sym |-> "libmodule_logger",      obj |-> "utils_log.c",  discipline |-> "init"],
  [sym |-> "find_level.lvl_names",  obj |-> "utils_log.c",  discipline |-> "const"],
  [sym |-> "key",                   obj |-> "core_ctx.c",   discipline |-> "once"],
  [sym |-> "key_once",              obj |-> "core_ctx.c",   discipline |-> "once"],
  [sym |-> "src_cmp_map",           obj |-> "core_src.c",   discipline |-> "const"],
  [sym |-> "src_names",             obj |-> "core_src.c",   discipline |-> "const"],
  [sym |-> "src_procs_map",         obj |-> "core_src.c",   discipline |-> "const"]
}

Threads == {1, 2}
Phases == {"boot", "running"}          \* boot: before the first context is registered

VARIABLES phase, wrote                  \* wrote: set of <<thread, symbol>> writes performed while contexts are running
vars == <<phase, wrote>>
Init == phase = "boot" /\ wrote = {}
\* what the library may do to a shared object, per discipline
BootWrite(v) == phase = "boot" /\ v.discipline = "init" /\ UNCHANGED vars
StartRunning == phase = "boot" /\ phase' = "running" /\ UNCHANGED wrote
\* while contexts run, a thread executing any Core.tla action only reads "init"/"const" objects and goes through the
\* pthread primitives for "once" objects: no action adds to `wrote'
CtxStep(t) == phase = "running" /\ UNCHANGED vars
Next == (\E v \in Shared : BootWrite(v)) \/ StartRunning \/ (\E t \in Threads : CtxStep(t))
Spec == Init /\ [][Next]_vars

\* C14: no unsynchronised write to shared state once contexts exist
NoSharedWrites == wrote = {}
DisciplinesKnown == \A v \in Shared : v.discipline \in {"init", "once", "const"}
=============================================================================
