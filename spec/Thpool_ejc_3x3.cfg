\* bounded exhaustive configuration of Thpool.tla: N=3 Subs={1} TaskOf=T_1x3 Lazy=FALSE Detached=FALSE WaitAll=FALSE
CONSTANTS
  N = 3
  Subs = {1}
  TaskOf <- T_1x3
  Follow <- F_none
  Lazy = FALSE
  Detached = FALSE
  WaitAll = FALSE
INIT Init
NEXT Next
CHECK_DEADLOCK FALSE
INVARIANTS TypeOK Parallelism FreeSemantics NoTouchAfterFree DestroyOK LockHolderSane DeadlockFree
PROPERTIES ExactlyOnce NothingRunsAfterFree
