\* sampled (TLC simulation mode), 6 elements: configuration of Seqs.tla: Kind=list HasDtor=TRUE HasCmp=TRUE
CONSTANTS
  Kind = "list"
  Elems = {1, 2, 3, 4, 5, 6}
  MaxLen = 6
  HasDtor = TRUE
  HasCmp = TRUE
  CmpSucc = FALSE
INIT Init
NEXT Next
CHECK_DEADLOCK FALSE
INVARIANTS TypeOK Conservation DtorOnlyIfConfigured IteratorVisitsOnce CursorInRange
PROPERTIES Fifo Lifo RelOrder
