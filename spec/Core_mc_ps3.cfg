\* pub/sub fan-out (C02, C08): set-up = 3 RUNNING modules in a started loop; publish/broadcast to several recipients, poll batches in every order, stop/pause of a recipient inside a handler of the same batch
CONSTANTS
  Mods = {"A", "B", "C"}
  Order <- Order3
  Collide = FALSE
  Hooks <- Hooks_none3
  Flags <- Flags_none
  CtxPersist = TRUE
  Topics = {"t1"}
  Pats = {"t1"}
  MaxPay = 1
  Cap = 2
  MaxNest = 1
  Ops = {"CtxDeregister", "DropRef", "Dispatch", "CtxQuit", "ModStop", "ModPause", "Publish", "Broadcast", "Subscribe"}
  CbOps = {"ModStop", "ModPause", "Broadcast"}
  EvalVals = {TRUE}
  Prios = {"N"}
  BatchSizes = {}
  UnstashNs = {}
  HandlerIds = {}
  Kinds = {}
  Keys = {1}
  BadKeys = {}
  SrcOpts = {}
  EvKinds = {"ps"}
  MaxBatch = 3
  Errnos = {}
  TbVals = {}
  TickVals = {}
  Targets = {"A", "B", "C"}
  SubTargets = {"A", "B", "C"}
  AutoVals = {TRUE, FALSE}
  SubOneshot = {FALSE}
  UdVals = {0}
  Senders = {"A", "B", "C"}
  QuitCodes = {0, 1}
  ForeignOps = {}
  MaxRefs = 1
  MaxHeld = 0
  PoolSize = 16
  Setup = "loop3"
INIT Init
NEXT Next
CHECK_DEADLOCK FALSE
INVARIANTS TypeOK C01_RunningCount C01_NoHandlerUnlessRunning C07_NoCtxNoModules C02_AutoFree C02_CopyAccounting C02_NoMailUnlessActive
