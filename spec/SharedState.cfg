SPECIFICATION Spec
INVARIANTS NoSharedWrites DisciplinesKnown
