\* bounded exhaustive configuration of Thpool.tla: N=2 Subs={1} TaskOf=T_1x2 Follow=F_12to34 (tasks 1 and 2 submit follow-up tasks 3 and 4 to their own pool while they run) Lazy=TRUE Detached=TRUE WaitAll=FALSE
CONSTANTS
  N = 2
  Subs = {1}
  TaskOf <- T_1x2
  Follow <- F_12to34
  Lazy = TRUE
  Detached = TRUE
  WaitAll = FALSE
INIT Init
NEXT Next
CHECK_DEADLOCK FALSE
INVARIANTS TypeOK Parallelism FreeSemantics NoTouchAfterFree DestroyOK LockHolderSane DeadlockFree
PROPERTIES ExactlyOnce NothingRunsAfterFree
