#include <stdio.h>
#include <stdint.h>
#include <string.h>
#include <stdlib.h>
#include <module/structs/map.h>
static size_t h(const char *key){ size_t hash=(const uint32_t)5381; char c; while((c=*key++)) hash=((hash<<5)+hash)+c;
 hash^=hash>>16; hash*=0x85ebca6b; hash^=hash>>13; hash*=0xc2b2ae35; hash^=hash>>16; return hash;}
int main(void){
  m_map_t *m = m_map_new(M_MAP_KEY_DUP, NULL); static int v; char first[32]="", k[32]; int n=0;
  for (int i=0; n<128; i++){ snprintf(k,32,"k%d",i); if ((h(k)&255)==10){ if(!n) strcpy(first,k); m_map_put(m,k,&v); n++; } }
  char t[2][32]; n=0;
  for (int i=0; n<2; i++){ snprintf(k,32,"t%d",i); if ((h(k)&255)==137){ strcpy(t[n],k); m_map_put(m,k,&v); n++; } }
  printf("len %zd before: %d %d\n", m_map_len(m), m_map_contains(m,t[0]), m_map_contains(m,t[1]));
  m_map_remove(m, first);
  printf("len %zd after: %d %d\n", m_map_len(m), m_map_contains(m,t[0]), m_map_contains(m,t[1]));
  return !(m_map_contains(m,t[0]) && m_map_contains(m,t[1]));
}
