#include <module/mod.h>
#include <module/ctx.h>
#include <module/mem/mem.h>
#include <module/structs/queue.h>
#include <stdio.h>
#include <unistd.h>
#include <stdlib.h>
static m_mod_t *A, *B, *C; static int b_fd_events, a_tmr_events;
static void on_evt(m_mod_t *self, const m_queue_t *const evts) {
    m_itr_foreach(evts, { m_evt_t *e = m_itr_get(m_itr);
        if (self == C && e->type == M_SRC_TYPE_PS) { m_mod_pause(A); m_mod_resume(A); }
        if (self == B && e->type == M_SRC_TYPE_FD) b_fd_events++;
        if (self == A && e->type == M_SRC_TYPE_TMR) a_tmr_events++; });
}
int main(void) {
    setvbuf(stdout, NULL, _IONBF, 0);
    m_ctx_register("c", M_CTX_PERSIST, NULL);
    m_mod_hook_t h = { .on_evt = on_evt };
    m_mod_register("A", &A, &h, 0, NULL); m_mod_register("B", &B, &h, 0, NULL); m_mod_register("C", &C, &h, 0, NULL);
    m_ctx_dispatch();
    int p[2]; pipe(p);
    m_src_tmr_t t = { CLOCK_MONOTONIC, 50 * 1000000ULL };
    m_mod_src_register_tmr(A, &t, 0, NULL);
    m_mod_src_register_fd(B, p[0], M_SRC_ONESHOT, NULL);
    static int payload;
    m_mod_ps_tell(A, C, &payload, 0);          /* ready first */
    usleep(80000);                              /* A's timer expires: ready second */
    write(p[1], "x", 1);                        /* B's descriptor: ready third */
    for (int i = 0; i < 5; i++) { int r = m_ctx_dispatch(); printf("dispatch=%d b_fd_events=%d a_tmr=%d\n", r, b_fd_events, a_tmr_events); usleep(20000); }
    printf("B registered fd sources: %zd (one-shot: must be 0 once it fired)\n", m_mod_src_len(B, M_SRC_TYPE_FD));
    int bad = b_fd_events != 1;
    m_ctx_quit(0); m_ctx_dispatch(); m_ctx_deregister(); m_mem_unref(A); m_mem_unref(B); m_mem_unref(C);
    printf(bad ? "FAIL: B never got the event of its readable descriptor\n" : "OK\n");
    return bad;
}
