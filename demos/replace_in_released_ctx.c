#include <module/mod.h>
#include <module/ctx.h>
#include <module/mem/mem.h>
#include <module/structs/queue.h>
#include <stdio.h>
#include <stdlib.h>
static void on_evt(m_mod_t *self, const m_queue_t *const evts) {}
static void on_stop(m_mod_t *self) { printf("on_stop(%s): m_ctx_deregister() = %d\n", m_mod_name(self), m_ctx_deregister()); }
int main(void) {
    setvbuf(stdout, NULL, _IONBF, 0);
    printf("ctx_register=%d\n", m_ctx_register("c", 0, NULL));
    m_mod_t *A1 = NULL, *A2 = NULL;
    m_mod_hook_t h = { .on_evt = on_evt, .on_stop = on_stop };
    printf("register A (replaceable) = %d\n", m_mod_register("A", &A1, &h, M_MOD_ALLOW_REPLACE, NULL));
    printf("register A again = %d\n", m_mod_register("A", &A2, &h, 0, NULL));
    printf("ctx name after: %s ; A1 state %d ; A2 %p state %d\n", m_ctx_name() ? m_ctx_name() : "(none)", A1 ? m_mod_state(A1) : -1, (void*)A2, A2 ? m_mod_state(A2) : -1);
    printf("second ctx_register=%d (thread has no context -> must be 0)\n", m_ctx_register("d", 0, NULL));
    if (A2) { printf("start(A2)=%d\n", m_mod_start(A2)); printf("deregister(A2)=%d\n", m_mod_deregister(&A2)); }
    m_mem_unref(A1);
    if (m_ctx_name()) m_ctx_deregister();
    return 0;
}
