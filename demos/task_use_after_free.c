#include <module/mod.h>
#include <module/ctx.h>
#include <module/mem/mem.h>
#include <module/structs/queue.h>
#include <stdio.h>
#include <semaphore.h>
#include <unistd.h>
#include <stdlib.h>
#include <string.h>
static sem_t gate; static int runs; static int delivered;
static int taskfn(void *ud) { __sync_fetch_and_add(&runs, 1); sem_wait(&gate); return 42; }
#include <pthread.h>
static void *poster(void *x) { usleep(100000); sem_post(&gate); return NULL; }
static void on_evt(m_mod_t *self, const m_queue_t *const evts) {
    m_itr_foreach(evts, { m_evt_t *e = m_itr_get(m_itr); if (e->type == M_SRC_TYPE_TASK) { delivered++; printf("task evt tid=%u ret=%d ud=%p\n", e->task_evt->tid, e->task_evt->retval, e->userdata); } });
}
int main(int argc, char **argv) {
    int scen = atoi(argv[1]);
    sem_init(&gate, 0, 0); setvbuf(stdout, NULL, _IONBF, 0);
    m_ctx_register("c", 0, NULL);   
    m_mod_t *A, *B;
    m_mod_hook_t h = { .on_evt = on_evt };
    m_mod_register("A", &A, &h, 0, NULL);
    m_mod_register("B", &B, &h, 0, NULL);
    m_ctx_dispatch();
    m_src_task_t t = { .tid = 7, .fn = taskfn };
    printf("reg=%d\n", m_mod_src_register_task(A, &t, 0, (void*)0x1234));
    usleep(100000);
    if (scen == 1) { /* stop while running, then finish */
        printf("stop=%d\n", m_mod_stop(A));
        sem_post(&gate); usleep(200000);
        printf("dispatch=%d\n", m_ctx_dispatch());
    } else if (scen == 2) { /* pause / resume while task running */
        printf("pause=%d\n", m_mod_pause(A));
        printf("resume=%d\n", m_mod_resume(A));
        usleep(100000);
        sem_post(&gate); sem_post(&gate); usleep(200000);
        printf("dispatch=%d runs=%d delivered=%d\n", m_ctx_dispatch(), runs, delivered);
        printf("dispatch=%d runs=%d delivered=%d\n", m_ctx_dispatch(), runs, delivered);
    } else if (scen == 3) { /* deregister while running */
        printf("dereg=%d\n", m_mod_deregister(&A));
        sem_post(&gate); usleep(200000);
        printf("dispatch=%d\n", m_ctx_dispatch());
    } else if (scen == 4) { /* loop stops while the task runs: the stop waits for it; its event is never consumed */
        pthread_t th; pthread_create(&th, NULL, poster, NULL);
        m_ctx_quit(1);
        printf("stopdispatch=%d\n", m_ctx_dispatch());
        pthread_join(th, NULL);
        printf("deregA=%d\n", m_mod_deregister(&A)); printf("deregB=%d\n", m_mod_deregister(&B));
        m_ctx_deregister();
        printf("end runs=%d delivered=%d\n", runs, delivered);
        return 0;
    } else if (scen == 0) {
        sem_post(&gate); usleep(200000);
        printf("dispatch=%d runs=%d delivered=%d len=%zd\n", m_ctx_dispatch(), runs, delivered, m_mod_src_len(A, M_SRC_TYPE_TASK));
    }
    m_ctx_quit(0);
    printf("stopdispatch=%d\n", m_ctx_dispatch());
    m_ctx_deregister(); m_mem_unref(A); m_mem_unref(B);
    printf("end runs=%d delivered=%d\n", runs, delivered);
    return 0;
}
