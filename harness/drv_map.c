/* drv_map.c - replays MapAbs.tla behaviours through m_map_*.
 * env: VP_DTOR VP_UPDATE VP_DUP (0|1), VP_KEYMODE: 0 plain keys, 1 all keys share one home slot,
 *      2 homes (255,255,0), 3 homes (254,255,255), 4 homes (255,255,255) of the 256-slot table (wrap-around clusters)
 * proj = a=<v>,b=<v>,c=<v>|len|<iterator: 0 | key | x(after remove)>|destroyed|allocations outstanding */
#define GW_SIMPLE_RUNNER
#include "gw.h"
#include "vp_alloc.h"
#include <stdbool.h>
#include "public/module/structs/map.h"

#define NK 3
#define NV 8
typedef struct { int id; } val_t;
static val_t V[NV + 1];
static int dcount[NV + 1];
static char KS[NK][32];
static const char *LN[NK] = {"a", "b", "c"};
static int has_dtor, allow_update, dup_keys, keymode;
static m_map_t *M; static m_map_itr_t *MI; static int itr_removed;

/* copy of the library's public hash (djb2 + murmur3 finaliser), only used to *search* adversarial key sets */
static size_t hash_string(const char *key) {
    size_t hash = (const uint32_t)5381;
    char c;
    while ((c = *key++)) hash = ((hash << 5) + hash) + c;
    hash ^= hash >> 16; hash *= 0x85ebca6b; hash ^= hash >> 13; hash *= 0xc2b2ae35; hash ^= hash >> 16;
    return hash;
}
static void find_key(char *out, int home, int salt) {
    for (unsigned long i = 0;; i++) {
        snprintf(out, 32, "k%d_%lu", salt, i);
        if ((int)(hash_string(out) & 255) == home) return;
    }
}
static void setup_keys(void) {
    static const int homes[5][NK] = {{-1, -1, -1}, {77, 77, 77}, {255, 255, 0}, {254, 255, 255}, {255, 255, 255}};
    for (int k = 0; k < NK; k++) {
        if (keymode == 0) snprintf(KS[k], 32, "%s", LN[k]);
        else find_key(KS[k], homes[keymode][k], k);
    }
}
static int kidx(const char *s) { if (!s) return -1; for (int k = 0; k < NK; k++) if (!strcmp(KS[k], s)) return k; return -2; }
static int lidx(const char *ln) { for (int k = 0; k < NK; k++) if (!strcmp(LN[k], ln)) return k; return -1; }
static int vid(void *p) { return p ? ((val_t *)p)->id : 0; }
static void dtor(void *p) { dcount[vid(p)]++; }
static int norm(long r) { return r < 0 ? -1 : (int)r; }
static long base_out;
static void mk(void) { M = m_map_new((dup_keys ? M_MAP_KEY_DUP : 0) | (allow_update ? M_MAP_VAL_ALLOW_UPDATE : 0), has_dtor ? dtor : NULL); }

static void project(char *buf, size_t n) {
    size_t k = 0;
    for (int i = 0; i < NK; i++) k += snprintf(buf + k, n - k, "%s%s=%d", i ? "," : "", LN[i], vid(m_map_get(M, KS[i])));
    k += snprintf(buf + k, n - k, "|%ld|", (long)m_map_len(M));
    if (!MI) k += snprintf(buf + k, n - k, "0");
    else if (itr_removed) k += snprintf(buf + k, n - k, "x");
    else { int ki = kidx(m_map_itr_get_key(MI)); k += snprintf(buf + k, n - k, "%s", ki >= 0 ? LN[ki] : "?"); }
    k += snprintf(buf + k, n - k, "|");
    int any = 0;
    for (int i = 1; i <= NV; i++) if (dcount[i]) { k += snprintf(buf + k, n - k, "%s%d", any ? "," : "", i); any = 1; if (dcount[i] > 1) k += snprintf(buf + k, n - k, "x%d", dcount[i]); }
    if (!any) k += snprintf(buf + k, n - k, "_");
    snprintf(buf + k, n - k, "|%ld", vp_outstanding - base_out);
}

/* callback iteration */
static int cb_seen[NK], cb_calls, cb_stop_at, cb_stop_rc, cb_foreign;
static unsigned cb_rm;
static int iter_cb(void *up, const char *key, void *value) {
    cb_calls++;
    int ki = kidx(key);
    if (ki < 0) cb_foreign++; else cb_seen[ki]++;
    if (cb_stop_at && cb_calls == cb_stop_at) return cb_stop_rc;
    if (ki >= 0 && (cb_rm & (1u << ki))) m_map_remove(M, key);
    return 0;
}

static void apply(const gw_edge *e, char *obs, size_t n) {
    const char *a = e->act;
    if (!strcmp(a, "Put")) {
        int k = lidx(e->sargs[0]); long v = e->args[1];
        char tmp[32];
        strcpy(tmp, KS[k]);
        int r = m_map_put(M, dup_keys ? tmp : KS[k], &V[v]);
        memset(tmp, 'Z', sizeof tmp - 1);      /* a duplicated key must not alias the caller's buffer */
        snprintf(obs, n, "%d", norm(r));
    } else if (!strcmp(a, "Get")) snprintf(obs, n, "%d", vid(m_map_get(M, KS[lidx(e->sargs[0])])));
    else if (!strcmp(a, "Contains")) snprintf(obs, n, "%d", (int)m_map_contains(M, KS[lidx(e->sargs[0])]));
    else if (!strcmp(a, "Remove")) snprintf(obs, n, "%d", norm(m_map_remove(M, KS[lidx(e->sargs[0])])));
    else if (!strcmp(a, "Clear")) { m_map_clear(M); snprintf(obs, n, "0"); }
    else if (!strcmp(a, "FreeNew")) { m_map_free(&M); int nul = M == NULL; mk(); snprintf(obs, n, "%d", nul ? 0 : -1); }
    else if (!strcmp(a, "IterateRm")) {
        int live[NK];
        for (int i = 0; i < NK; i++) live[i] = m_map_get(M, KS[i]) != NULL;
        cb_rm = 0;
        for (int i = 0; i < NK; i++) if (strstr(e->sargs[0], LN[i])) cb_rm |= 1u << i;
        memset(cb_seen, 0, sizeof cb_seen); cb_calls = 0; cb_stop_at = 0; cb_foreign = 0;
        int r = m_map_iterate(M, iter_cb, NULL);
        int once = !cb_foreign;
        for (int i = 0; i < NK; i++) if (cb_seen[i] != live[i]) once = 0;
        snprintf(obs, n, "%d,%d,%d", norm(r), cb_calls, once);
    } else if (!strcmp(a, "IterateStop")) {
        cb_rm = 0; memset(cb_seen, 0, sizeof cb_seen); cb_calls = 0; cb_foreign = 0;
        cb_stop_at = (int)e->args[0]; cb_stop_rc = e->args[1] ? -7 : 5;
        int r = m_map_iterate(M, iter_cb, NULL);
        cb_stop_at = 0;
        snprintf(obs, n, "%d,%d", norm(r), cb_calls);
    } else if (!strcmp(a, "ItrNew") || !strcmp(a, "ItrNewEmpty")) { MI = m_map_itr_new(M); itr_removed = 0; snprintf(obs, n, "%d", MI != NULL); }
    else if (!strcmp(a, "ItrNext")) { int r = m_map_itr_next(&MI); itr_removed = 0; snprintf(obs, n, "%d", norm(r)); }
    else if (!strcmp(a, "ItrGet")) snprintf(obs, n, "%d", vid(m_map_itr_get_data(MI)));
    else if (!strcmp(a, "ItrRemove")) { int r = m_map_itr_remove(MI); itr_removed = 1; snprintf(obs, n, "%d", norm(r)); }
    else if (!strcmp(a, "ItrDrop")) { memhook._free(MI); MI = NULL; itr_removed = 0; snprintf(obs, n, "0"); }
    else snprintf(obs, n, "?unknown-action");
}

static int gw_is_observer(const gw_edge *e) {
    const char *a = e->act;
    return !strcmp(a, "Get") || !strcmp(a, "Contains") || !strcmp(a, "IterateStop") || !strcmp(a, "ItrGet");
}
static int gw_choice_fixed(const gw_edge *e) { return (!strcmp(e->act, "ItrNew") || !strcmp(e->act, "ItrNext")) ? 0 : -1; }
static int gw_is_nontrivial(const int *prog, int n) {
    /* >= 2 keys inserted and an entry removed during an iteration (iterator or callback) */
    int puts = 0;
    for (int i = 0; i < n; i++) {
        gw_edge *e = &gw_edges[prog[i]];
        if (!strcmp(e->act, "Put")) puts++;
        if (puts >= 2 && (!strcmp(e->act, "ItrRemove") || (!strcmp(e->act, "IterateRm") && strcmp(e->sargs[0], "{}")))) return 1;
    }
    return 0;
}
static void gw_begin(void) { memset(dcount, 0, sizeof dcount); MI = NULL; itr_removed = 0; base_out = vp_outstanding; mk(); }
static void gw_step(const gw_edge *e, char *obs, char *proj, size_t n) { apply(e, obs, n); project(proj, n); }
static void gw_sig(const int *prog, int i, const gw_edge *e, int ok_obs, char *sig, size_t n) {
    int rm_in_itr = 0;
    for (int j = 0; j < i; j++) if (!strcmp(gw_edges[prog[j]].act, "ItrRemove")) rm_in_itr = 1;
    snprintf(sig, n, "map-keymode%d-%s-%s%s", keymode, e->act, ok_obs ? "state" : "ret", rm_in_itr ? "-after-ItrRemove" : "");
}
static int gw_end(char *msg, size_t n) {
    if (MI) { memhook._free(MI); MI = NULL; }
    m_map_free(&M);
    long left = vp_outstanding - base_out;
    vp_outstanding = base_out;
    if (left) { snprintf(msg, n, "allocator ledger: %ld blocks outstanding after free (key copies leaked?)", left); return 1; }
    return 0;
}

/* ---------------- E3: trace mode (thousands of keys: the table grows and is rehashed) ---------------- */
#define TV 6000
static val_t TVv[TV + 1];
static int tdead[TV + 1], ntdead;
static void tdtor(void *p) { tdead[ntdead++] = ((val_t *)p)->id; }
static FILE *TF;
static long tr_events;
static char rmkeys[1 << 16];
static int tr_rm_mod, tr_rm_res, tr_calls, tr_bad;
static int tr_iter_cb(void *up, const char *key, void *value) {
    tr_calls++;
    int idx = atoi(key + 1);
    if (tr_rm_mod && idx % tr_rm_mod == tr_rm_res) {
        size_t k = strlen(rmkeys);
        snprintf(rmkeys + k, sizeof rmkeys - k, "%s\"%s\"", k ? "," : "", key);
        char copy[32]; snprintf(copy, sizeof copy, "%s", key);
        m_map_remove(M, copy);
    }
    return 0;
}
static void tr_log(const char *a, const char *k, int v, const char *obs, const char *extra) {
    fprintf(TF, "{\"a\":\"%s\",\"k\":\"%s\",\"v\":%d,\"obs\":[%s],\"len\":%ld,\"dead\":[", a, k ? k : "", v, obs, (long)m_map_len(M));
    for (int i = 0; i < ntdead; i++) fprintf(TF, "%s%d", i ? "," : "", tdead[i]);
    fprintf(TF, "]%s}\n", extra ? extra : "");
    ntdead = 0;
    tr_events++;
}
static int trace_main(const char *out, unsigned seed, int nkeys, long nops) {
    TF = fopen(out, "w");
    if (!TF) return 2;
    for (int i = 0; i <= TV; i++) TVv[i].id = i;
    srand(seed);
    M = m_map_new((dup_keys ? M_MAP_KEY_DUP : 0) | (allow_update ? M_MAP_VAL_ALLOW_UPDATE : 0), has_dtor ? tdtor : NULL);
    int nextv = 1;
    char key[32], obs[64];
    static char keys[4096][12];
    for (int i = 0; i < nkeys && i < 4096; i++) snprintf(keys[i], sizeof keys[i], "k%d", i);
    if (getenv("VP_TRACE_CLUSTER")) {
        /* adversarial key set: 128 keys homed at slot 10 of the initial table (a cluster as long as the probe limit), then keys homed
           at its far end and in its middle: removals at the head of the cluster must keep every later entry reachable */
        static const int homes[3] = {10, 137, 100};
        int n = 0, cand = 0;
        for (int part = 0; part < 3; part++)
            for (int want = part == 0 ? 128 : 6; want > 0 && n < nkeys; cand++) {
                char k[12]; snprintf(k, sizeof k, "c%d", cand);
                if ((int)(hash_string(k) & 255) == homes[part]) { snprintf(keys[n++], sizeof keys[0], "%s", k); want--; }
            }
        if (atoi(getenv("VP_TRACE_CLUSTER")) == 2) {
            /* second adversarial key set: one key per home slot 200, 201, ... 255, 0, 1, ... : a cluster of single-key chains that is longer
               than half of the table and wraps around its end (cyclic "before / after" tests over more than half a table) */
            static int slot_key[256];
            int want = nkeys < 180 ? nkeys : 180, got = 0;
            memset(slot_key, -1, sizeof slot_key);
            for (cand = 0; got < want; cand++) {
                char k[12]; snprintf(k, sizeof k, "c%d", cand);
                int off = ((int)(hash_string(k) & 255) - 200 + 256) & 255;
                if (off < want && slot_key[off] < 0) { slot_key[off] = cand; got++; }
            }
            for (n = 0; n < want; n++) snprintf(keys[n], sizeof keys[0], "c%d", slot_key[n]);
        }
        nkeys = n;
        /* scripted part: fill the whole set in, then take keys away at the head of the cluster and look every key up again */
        for (int i = 0; i < nkeys && nextv < TV - 2; i++) {
            int v = nextv++, ret = m_map_put(M, keys[i], &TVv[v]);
            snprintf(obs, sizeof obs, "%d", ret < 0 ? -1 : ret); tr_log("Put", keys[i], v, obs, NULL);
        }
        for (int j = 0; j < 4 && nextv < TV - 2; j++) {
            int ret = m_map_remove(M, keys[j * 3]);
            snprintf(obs, sizeof obs, "%d", ret < 0 ? -1 : ret); tr_log("Remove", keys[j * 3], 0, obs, NULL);
            for (int i = 0; i < nkeys; i++) {
                void *g = m_map_get(M, keys[i]);
                snprintf(obs, sizeof obs, "%d", g ? ((val_t *)g)->id : 0); tr_log("Get", keys[i], 0, obs, NULL);
            }
            int v = nextv++; ret = m_map_put(M, keys[j * 3], &TVv[v]);
            snprintf(obs, sizeof obs, "%d", ret < 0 ? -1 : ret); tr_log("Put", keys[j * 3], v, obs, NULL);
        }
    }
    for (long op = 0; op < nops && nextv < TV - 2; op++) {
        int r = rand() % 100;
        int ki = (op < nkeys * 2 && r < 55) ? (int)(op / 2 % nkeys) : rand() % nkeys;   /* first fill the table up (growth), then churn */
        snprintf(key, sizeof key, "%s", keys[ki]);
        if (r < 55) {
            void *cur = m_map_get(M, key);
            int v = (cur && rand() % 4 == 0) ? ((val_t *)cur)->id : nextv++;        /* sometimes re-put the very same value object */
            int ret = m_map_put(M, dup_keys ? key : keys[ki], &TVv[v]);
            snprintf(obs, sizeof obs, "%d", ret < 0 ? -1 : ret);
            tr_log("Put", key, v, obs, NULL);
        } else if (r < 70) {
            void *g = m_map_get(M, key);
            snprintf(obs, sizeof obs, "%d", g ? ((val_t *)g)->id : 0);
            tr_log("Get", key, 0, obs, NULL);
        } else if (r < 75) {
            snprintf(obs, sizeof obs, "%d", (int)m_map_contains(M, key));
            tr_log("Contains", key, 0, obs, NULL);
        } else if (r < 92) {
            int ret = m_map_remove(M, key);
            snprintf(obs, sizeof obs, "%d", ret < 0 ? -1 : ret);
            tr_log("Remove", key, 0, obs, NULL);
        } else if (r < 95 && m_map_len(M) > 0) {
            /* callback iteration removing the keys whose number is = res (mod mod) */
            tr_rm_mod = 2 + rand() % 5; tr_rm_res = rand() % tr_rm_mod; tr_calls = 0; rmkeys[0] = 0;
            long before = m_map_len(M);
            int ret = m_map_iterate(M, tr_iter_cb, NULL);
            snprintf(obs, sizeof obs, "%d,%d,%d", ret < 0 ? -1 : 0, tr_calls, tr_calls == before);
            static char extra[(1 << 16) + 32];
            snprintf(extra, sizeof extra, ",\"rm\":[%s]", rmkeys);
            tr_log("IterateRm", "", 0, obs, extra);
        } else if (r < 98) {
            /* iterator sweep, removing some of the entries */
            m_map_itr_t *itr = m_map_itr_new(M);
            tr_log("ItrNew", itr ? m_map_itr_get_key(itr) : "", 0, itr ? "1" : "0", NULL);
            while (itr) {
                void *d = m_map_itr_get_data(itr);
                snprintf(obs, sizeof obs, "%d", d ? ((val_t *)d)->id : 0);
                tr_log("ItrGet", "", 0, obs, NULL);
                if (rand() % 3 == 0) { m_map_itr_remove(itr); tr_log("ItrRemove", "", 0, "0", NULL); }
                m_map_itr_next(&itr);
                tr_log("ItrNext", itr ? m_map_itr_get_key(itr) : "", 0, "0", NULL);
            }
        } else if (rand() % 4 == 0) {
            m_map_clear(M);
            tr_log("Clear", "", 0, "0", NULL);
        }
    }
    m_map_clear(M);
    tr_log("Clear", "", 0, "0", NULL);
    m_map_free(&M);
    fclose(TF);
    printf("TRACE {\"events\": %ld, \"outstanding\": %ld, \"values\": %d}\n", tr_events, vp_outstanding, nextv);
    return 0;
}

int main(int argc, char **argv) {
    has_dtor = getenv("VP_DTOR") && atoi(getenv("VP_DTOR"));
    allow_update = getenv("VP_UPDATE") && atoi(getenv("VP_UPDATE"));
    dup_keys = getenv("VP_DUP") && atoi(getenv("VP_DUP"));
    keymode = getenv("VP_KEYMODE") ? atoi(getenv("VP_KEYMODE")) : 0;
    for (int i = 0; i <= NV; i++) V[i].id = i;
    setup_keys();
    vp_alloc_install();
    if (argc >= 6 && !strcmp(argv[1], "--trace")) return trace_main(argv[2], (unsigned)atoi(argv[3]), atoi(argv[4]), atol(argv[5]));
    return gw_main(argc, argv);
}
