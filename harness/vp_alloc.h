/* vp_alloc.h - allocator ledger installed as libmodule's memhook.
 * Counts outstanding blocks (leak oracle); double / foreign frees are left to ASan, which sees
 * the underlying malloc/free.  Optional pointer watch list records frees of user payloads. */
#ifndef VP_ALLOC_H
#define VP_ALLOC_H
#include <stdlib.h>
#include <string.h>
#include "mem.h"   /* Lib/utils/mem.h: extern m_memhook_t memhook */

#ifndef VP_TLS
#define VP_TLS          /* drivers that replay on several threads at once define it as __thread before including */
#endif
static VP_TLS long vp_outstanding, vp_allocs, vp_frees;
/* threads of the library itself (task threads) declare themselves foreign: what they allocate / free is counted in a shared
   counter that the replaying thread adds to its own ledger */
static long vp_foreign_outstanding;
static VP_TLS int vp_foreign_thread;
#include <pthread.h>
static pthread_t vp_owner; static int vp_owner_set;     /* when set: every other thread is foreign */
static int vp_trace;
#include <stdio.h>
#define VP_COUNT(d) do { if (vp_owner_set && !pthread_equal(pthread_self(), vp_owner)) vp_foreign_thread = 1; if (vp_trace) fprintf(stderr, "VPALLOC %+d %p foreign=%d ret=%p\n", (d), (void *)p, vp_foreign_thread, __builtin_return_address(0));  if (vp_foreign_thread) __atomic_add_fetch(&vp_foreign_outstanding, (d), __ATOMIC_SEQ_CST); else { vp_outstanding += (d); if ((d) > 0) vp_allocs++; else vp_frees++; } } while (0)

#define VP_WATCH_MAX 4096
static VP_TLS void *vp_watch_ptr[VP_WATCH_MAX];
static VP_TLS int vp_watch_freed[VP_WATCH_MAX];
static VP_TLS int vp_nwatch;

static VP_TLS void *vp_last_alloc; static VP_TLS size_t vp_last_size;
static void (*vp_free_cb)(void *p);
static void *vp_malloc(size_t n) { void *p = malloc(n ? n : 1); if (p) { VP_COUNT(1); vp_last_alloc = p; vp_last_size = n; } return p; }
static void *vp_calloc(size_t a, size_t b) { void *p = calloc(a ? a : 1, b ? b : 1); if (p) { VP_COUNT(1); vp_last_alloc = p; vp_last_size = a * b; } return p; }
static void vp_free(void *p) {
    if (!p) return;
    if (vp_free_cb) vp_free_cb(p);
    /* a watch ends with the free of its block: the allocator may hand the address out again (a second free of the
       same block is a double free, which ASan - or glibc - reports) */
    for (int i = 0; i < vp_nwatch; i++) if (vp_watch_ptr[i] == p) { vp_watch_freed[i]++; vp_watch_ptr[i] = NULL; }
    VP_COUNT(-1);
    free(p);
}
static void vp_alloc_install(void) {
    memhook._malloc = vp_malloc;
    memhook._calloc = vp_calloc;
    memhook._free = vp_free;
    vp_trace = getenv("VP_ALLOC_TRACE") != NULL;
}
/* user payloads that the library may free through the memhook are allocated with this */
static void *vp_user_alloc(size_t n) { return vp_malloc(n); }
static int vp_watch(void *p) { if (vp_nwatch >= VP_WATCH_MAX) vp_nwatch = VP_WATCH_MAX - 1;
    for (int i = 0; i < vp_nwatch; i++) if (vp_watch_ptr[i] == p) vp_watch_ptr[i] = NULL;   /* the allocator reused the address: retire the old watch (its count stays) */ vp_watch_ptr[vp_nwatch] = p; vp_watch_freed[vp_nwatch] = 0; return vp_nwatch++; }
static void vp_watch_reset(void) { vp_nwatch = 0; }
#endif
