/* drv_seqs.c - replays Seqs.tla behaviours (queue / stack / list) through the real containers.
 * env: VP_KIND=queue|stack|list  VP_DTOR=0|1  VP_CMP=0|1
 * After every step compares: return value/outputs (obs) and the projection
 *   items|iteratorLive|deadElements   (contents read back through the callback iteration API,
 * length through *_len, destructor counts from the driver's own destructor). */
#define GW_SIMPLE_RUNNER
#include "gw.h"
#include "vp_alloc.h"
#include "public/module/structs/queue.h"
#include "public/module/structs/stack.h"
#include "public/module/structs/list.h"

#define NELEM 8
typedef struct { int id; int dtor; } elem_t;
static elem_t E[NELEM + 1];
static int kind; /* 0 queue 1 stack 2 list */
static int has_dtor, has_cmp;

static m_queue_t *Q; static m_queue_itr_t *QI;
static m_stack_t *S; static m_stack_itr_t *SI;
static m_list_t *L;  static m_list_itr_t *LI;

static void dtor(void *p) { ((elem_t *)p)->dtor++; }
static int keyof(int id) { return (id + 1) / 2; }
static int cmp(void *a, void *b) { return keyof(((elem_t *)a)->id) - keyof(((elem_t *)b)->id); }
/* VP_CMP=2: a comparator that is not reflexive: the searched datum matches the elements whose key is its own key + 1 */
static int cmp_succ(void *a, void *b) { return keyof(((elem_t *)b)->id) - (keyof(((elem_t *)a)->id) + 1); }

/* callback iteration: records visited ids, stops at the k-th */
static int vis[64], nvis, stop_at, stop_rc;
static int visit_cb(void *up, void *data) {
    vis[nvis++] = ((elem_t *)data)->id;
    if (stop_at && nvis == stop_at) return stop_rc;
    return 0;
}

static void mk(void) {
    if (kind == 0) Q = m_queue_new(has_dtor ? dtor : NULL);
    else if (kind == 1) S = m_stack_new(has_dtor ? dtor : NULL);
    else L = m_list_new(has_cmp == 2 ? cmp_succ : has_cmp ? cmp : NULL, has_dtor ? dtor : NULL);
}
static void fr(void) {
    if (kind == 0) m_queue_free(&Q);
    else if (kind == 1) m_stack_free(&S);
    else m_list_free(&L);
}
static long len(void) { return kind == 0 ? m_queue_len(Q) : kind == 1 ? m_stack_len(S) : m_list_len(L); }
static int iterate(void) {
    nvis = 0;
    return kind == 0 ? m_queue_iterate(Q, visit_cb, NULL) : kind == 1 ? m_stack_iterate(S, visit_cb, NULL) : m_list_iterate(L, visit_cb, NULL);
}
static int itr_live(void) { return kind == 0 ? QI != NULL : kind == 1 ? SI != NULL : LI != NULL; }
static int norm(long r) { return r < 0 ? -1 : (int)r; }
static int eid(void *p) { return p ? ((elem_t *)p)->id : 0; }

static void project(char *buf, size_t n) {
    size_t k = 0;
    stop_at = 0;
    long l = len();
    if (l > 0) iterate(); else nvis = 0;
    if (nvis == 0) k += snprintf(buf + k, n - k, "_");
    for (int i = 0; i < nvis; i++) k += snprintf(buf + k, n - k, "%s%d", i ? "," : "", vis[i]);
    k += snprintf(buf + k, n - k, "|%ld|%d|", l, itr_live());
    int any = 0;
    for (int i = 1; i <= NELEM; i++) if (E[i].dtor) { k += snprintf(buf + k, n - k, "%s%d", any ? "," : "", i); any = 1; if (E[i].dtor > 1) k += snprintf(buf + k, n - k, "x%d", E[i].dtor); }
    if (!any) snprintf(buf + k, n - k, "_");
}

static void apply(gw_edge *e, char *obs, size_t n) {
    const char *a = e->act;
    long x = e->args[0];
    if (!strcmp(a, "Add")) {
        int r = kind == 0 ? m_queue_enqueue(Q, &E[x]) : m_stack_push(S, &E[x]);
        snprintf(obs, n, "%d", norm(r));
    } else if (!strcmp(a, "Insert")) {
        snprintf(obs, n, "%d", norm(m_list_insert(L, &E[x])));
    } else if (!strcmp(a, "Take")) {
        snprintf(obs, n, "%d", eid(kind == 0 ? m_queue_dequeue(Q) : m_stack_pop(S)));
    } else if (!strcmp(a, "Peek")) {
        snprintf(obs, n, "%d", eid(kind == 0 ? m_queue_peek(Q) : m_stack_peek(S)));
    } else if (!strcmp(a, "Remove")) {
        snprintf(obs, n, "%d", norm(kind == 0 ? m_queue_remove(Q) : m_stack_remove(S)));
    } else if (!strcmp(a, "RemoveKey")) {
        snprintf(obs, n, "%d", norm(m_list_remove(L, &E[x])));
    } else if (!strcmp(a, "Find")) {
        snprintf(obs, n, "%d", eid(m_list_find(L, &E[x])));
    } else if (!strcmp(a, "Clear")) {
        if (kind == 0) m_queue_clear(Q); else if (kind == 1) m_stack_clear(S); else m_list_clear(L);
        snprintf(obs, n, "0");          /* return value on clear is not fixed by the property */
    } else if (!strcmp(a, "FreeNew")) {
        fr();
        int nul = kind == 0 ? Q == NULL : kind == 1 ? S == NULL : L == NULL;
        mk();
        snprintf(obs, n, "%d", nul ? 0 : -1);
    } else if (!strcmp(a, "Iterate")) {
        stop_at = (int)e->args[0];
        stop_rc = e->args[1] ? -7 : 5;
        int r = iterate();
        stop_at = 0;
        size_t k = snprintf(obs, n, "%d", norm(r));
        for (int i = 0; i < nvis; i++) k += snprintf(obs + k, n - k, ",%d", vis[i]);
    } else if (!strcmp(a, "ItrNew")) {
        if (kind == 0) QI = m_queue_itr_new(Q); else if (kind == 1) SI = m_stack_itr_new(S); else LI = m_list_itr_new(L);
        snprintf(obs, n, "%d", itr_live());
    } else if (!strcmp(a, "ItrNext")) {
        int r = kind == 0 ? m_queue_itr_next(&QI) : kind == 1 ? m_stack_itr_next(&SI) : m_list_itr_next(&LI);
        snprintf(obs, n, "%d", norm(r));
    } else if (!strcmp(a, "ItrGet")) {
        snprintf(obs, n, "%d", eid(kind == 0 ? m_queue_itr_get_data(QI) : kind == 1 ? m_stack_itr_get_data(SI) : m_list_itr_get_data(LI)));
    } else if (!strcmp(a, "ItrSet")) {
        int r = kind == 0 ? m_queue_itr_set_data(QI, &E[x]) : kind == 1 ? m_stack_itr_set_data(SI, &E[x]) : m_list_itr_set_data(LI, &E[x]);
        snprintf(obs, n, "%d", norm(r));
    } else if (!strcmp(a, "ItrRemove")) {
        int r = kind == 0 ? m_queue_itr_remove(QI) : kind == 1 ? m_stack_itr_remove(SI) : m_list_itr_remove(LI);
        snprintf(obs, n, "%d", norm(r));
    } else if (!strcmp(a, "ItrInsert")) {
        snprintf(obs, n, "%d", norm(m_list_itr_insert(LI, &E[x])));
    } else if (!strcmp(a, "ItrDrop")) {
        if (kind == 0) { memhook._free(QI); QI = NULL; } else if (kind == 1) { memhook._free(SI); SI = NULL; } else { memhook._free(LI); LI = NULL; }
        snprintf(obs, n, "0");
    } else {
        snprintf(obs, n, "?unknown-action");
    }
}

static int gw_is_nontrivial(const int *prog, int n) {
    /* an iterator mutation followed by at least one later non-iterator operation */
    int seen = 0;
    for (int i = 0; i < n; i++) {
        const char *a = gw_edges[prog[i]].act;
        if (!strcmp(a, "ItrRemove") || !strcmp(a, "ItrSet") || !strcmp(a, "ItrInsert")) seen = 1;
        else if (seen && strncmp(a, "Itr", 3)) return 1;
    }
    return 0;
}

static int gw_is_observer(const gw_edge *e) {
    const char *a = e->act;
    return !strcmp(a, "Peek") || !strcmp(a, "Find") || !strcmp(a, "Iterate") || !strcmp(a, "ItrGet");
}
static int gw_choice_fixed(const gw_edge *e) { return !strcmp(e->act, "Insert") ? 1 : -1; }

static long base_out;
static void gw_begin(void) {
    base_out = vp_outstanding;
    for (int i = 1; i <= NELEM; i++) E[i].dtor = 0;
    QI = NULL; SI = NULL; LI = NULL;
    mk();
}
static void gw_step(const gw_edge *e, char *obs, char *proj, size_t n) {
    apply((gw_edge *)e, obs, n);
    project(proj, n);
}
static void gw_sig(const int *prog, int i, const gw_edge *e, int ok_obs, char *sig, size_t n) {
    /* signature: kind, action, which part mismatched, and the last iterator mutation that preceded */
    const char *mut = "";
    for (int j = 0; j < i; j++) {
        const char *a = gw_edges[prog[j]].act;
        if (!strcmp(a, "ItrRemove") || !strcmp(a, "ItrSet") || !strcmp(a, "ItrInsert")) mut = a;
    }
    snprintf(sig, n, "%s-%s-%s%s%s", kind == 0 ? "queue" : kind == 1 ? "stack" : "list", e->act,
             ok_obs ? "state" : "ret", *mut ? "-after-" : "", mut);
}
static int gw_end(char *msg, size_t n) {
    if (QI) { memhook._free(QI); QI = NULL; }
    if (SI) { memhook._free(SI); SI = NULL; }
    if (LI) { memhook._free(LI); LI = NULL; }
    fr();
    long left = vp_outstanding - base_out;
    vp_outstanding = base_out;
    if (left) { snprintf(msg, n, "allocator ledger: %ld blocks outstanding after free", left); return 1; }
    return 0;
}

int main(int argc, char **argv) {
    const char *k = getenv("VP_KIND");
    kind = !k || !strcmp(k, "queue") ? 0 : !strcmp(k, "stack") ? 1 : 2;
    has_dtor = getenv("VP_DTOR") && atoi(getenv("VP_DTOR"));
    has_cmp = getenv("VP_CMP") ? atoi(getenv("VP_CMP")) : 0;
    for (int i = 0; i <= NELEM; i++) E[i].id = i;
    vp_alloc_install();
    return gw_main(argc, argv);
}
