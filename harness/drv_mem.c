/* drv_mem.c - replays Mem.tla behaviours through m_mem_new/ref/unref/unrefp/size.
 * obs  = ret[,events...]   events: 10+b destructor on b, 20+b memory of b returned to the allocator
 * proj = per block  N | D | L<size>a<aligned>p<pattern intact>  joined by ';' */
#define GW_SIMPLE_RUNNER
#include "gw.h"
#include "vp_alloc.h"
#include <stdalign.h>
#include <stddef.h>
#include "public/module/mem/mem.h"

#define NB 48
#define NBR 8          /* blocks of the random phases */
static struct { unsigned char *ptr; void *base; int child; size_t size; int live; int created; } B[NB + 1];
static int evlog[512], nev;
static int dtor_bad;

static int pattern_ok(int b) {
    for (size_t i = 0; i < B[b].size; i++) if (B[b].ptr[i] != (unsigned char)(0xA0 + b + i)) return 0;
    return 1;
}
static void blk_dtor(void *p) {
    for (int b = 1; b <= NB; b++) if (B[b].live && B[b].ptr == p) {
        evlog[nev++] = 1000 + b;
        /* still-valid block: pattern readable and size still answered */
        if (!pattern_ok(b) || m_mem_size(p) != B[b].size) dtor_bad++;
        if (B[b].child) m_mem_unref(B[B[b].child].ptr);
        return;
    }
    evlog[nev++] = 9999; /* destructor on an unknown pointer */
}
static void on_free(void *p) {
    for (int b = 1; b <= NB; b++) if (B[b].live && B[b].base == p) { evlog[nev++] = 2000 + b; B[b].live = 0; return; }
}

static void project(char *buf, size_t n) {
    size_t k = 0;
    for (int b = 1; b <= NB && B[b].created >= 0; b++) {
        if (b > 1) k += snprintf(buf + k, n - k, ";");
        if (!B[b].created || !B[b].live) k += snprintf(buf + k, n - k, "D");
        else k += snprintf(buf + k, n - k, "L%zua%dp%d", m_mem_size(B[b].ptr),
                           (int)(((uintptr_t)B[b].ptr % alignof(max_align_t)) == 0), pattern_ok(b));
    }
}

static int nblocks = 3;

static void apply(gw_edge *e, char *obs, size_t n) {
    const char *a = e->act;
    int b = (int)e->args[0];
    long ret = 0;
    nev = 0;
    if (!strcmp(a, "New")) {
        size_t s = (size_t)e->args[1];
        int d = (int)e->args[2], c = (int)e->args[3];
        unsigned char *p = m_mem_new(s, d ? blk_dtor : NULL);
        B[b].ptr = p; B[b].base = vp_last_alloc; B[b].size = s; B[b].child = c; B[b].live = 1; B[b].created = 1;
        for (size_t i = 0; i < s; i++) p[i] = (unsigned char)(0xA0 + b + i);
        ret = p ? b : 0;
    } else if (!strcmp(a, "Ref")) {
        ret = m_mem_ref(B[b].ptr) == B[b].ptr ? b : -1;
    } else if (!strcmp(a, "RefN")) {                 /* n references taken at once (trace mode) */
        ret = b;
        for (long i = 0; i < e->args[1]; i++) if (m_mem_ref(B[b].ptr) != B[b].ptr) ret = -1;
    } else if (!strcmp(a, "UnrefN")) {               /* n references dropped, not the last one */
        for (long i = 0; i < e->args[1]; i++) if (m_mem_unref(B[b].ptr) != NULL) ret = -1;
    } else if (!strcmp(a, "Unref")) {
        ret = m_mem_unref(B[b].ptr) == NULL ? 0 : -1;
    } else if (!strcmp(a, "Unrefp")) {
        void *q = B[b].ptr;
        m_mem_unrefp(&q);
        ret = q == NULL ? 0 : -1;
    } else if (!strcmp(a, "SizeOf")) {
        ret = (long)m_mem_size(B[b].ptr);
    } else if (!strcmp(a, "NullOp")) {
        const char *k = e->sargs[0];
        if (!strcmp(k, "ref")) ret = m_mem_ref(NULL) ? -1 : 0;
        else if (!strcmp(k, "unref")) ret = m_mem_unref(NULL) ? -1 : 0;
        else if (!strcmp(k, "unrefp")) { m_mem_unrefp(NULL); ret = 0; }
        else if (!strcmp(k, "unrefp_null")) { void *q = NULL; m_mem_unrefp(&q); ret = q ? -1 : 0; }
        else ret = (long)m_mem_size(NULL);
    }
    size_t k = snprintf(obs, n, "%ld", ret);
    for (int i = 0; i < nev; i++) k += snprintf(obs + k, n - k, ",%d", evlog[i]);
    if (dtor_bad) { snprintf(obs + k, n - k, ",dtor-saw-invalid-block"); dtor_bad = 0; }
}

static int gw_is_nontrivial(const int *prog, int n) {
    /* a block with >1 reference or a nested block is released */
    int refs = 0, nested = 0, unref = 0;
    for (int i = 0; i < n; i++) {
        gw_edge *e = &gw_edges[prog[i]];
        if (!strcmp(e->act, "Ref")) refs = 1;
        if (!strcmp(e->act, "New") && e->args[3]) nested = 1;
        if ((refs || nested) && !strncmp(e->act, "Unref", 5)) unref = 1;
    }
    return unref;
}

static int gw_is_observer(const gw_edge *e) { return !strcmp(e->act, "SizeOf") || !strcmp(e->act, "NullOp"); }
static int gw_choice_fixed(const gw_edge *e) { return -1; }
static long base_out;
static void gw_begin(void) {
    base_out = vp_outstanding;
    dtor_bad = 0;
    for (int b = 0; b <= NB; b++) { memset(&B[b], 0, sizeof B[b]); if (b > nblocks) B[b].created = -1; }
}
static void gw_step(const gw_edge *e, char *obs, char *proj, size_t n) {
    apply((gw_edge *)e, obs, n);
    project(proj, n);
}
static void gw_sig(const int *prog, int i, const gw_edge *e, int ok_obs, char *sig, size_t n) {
    snprintf(sig, n, "mem-%s-%s", e->act, ok_obs ? "state" : "ret");
}
static int gw_end(char *msg, size_t n) {
    /* drop every reference still owned by the program: unref roots until everything is dead */
    for (int round = 0; round < 16; round++)
        for (int b = 1; b <= nblocks; b++) {
            int is_child = 0;
            for (int q = 1; q <= nblocks; q++) if (B[q].live && B[q].child == b) is_child = 1;
            if (B[b].live && !is_child) m_mem_unref(B[b].ptr);
        }
    long left = vp_outstanding - base_out;
    vp_outstanding = base_out;
    if (left) { snprintf(msg, n, "allocator ledger: %ld blocks outstanding after all references were dropped", left); return 1; }
    if (dtor_bad) { snprintf(msg, n, "a destructor saw an invalid block (content or size) during teardown"); dtor_bad = 0; return 1; }
    return 0;
}

/* ---------------- E3: trace mode (random programs beyond the bounded model) ---------------- */
static FILE *TF;
static int g_held[NB + 1], g_par[NB + 1], g_dt[NB + 1];
static long tr_events;

static void tr_do(const char *act, int b, long s, int d, int c, const char *k) {
    gw_edge e; memset(&e, 0, sizeof e);
    char obs[8192];
    strcpy(e.act, act);
    e.args[0] = b; e.args[1] = s; e.args[2] = d; e.args[3] = c;
    if (k) strcpy(e.sargs[0], k);
    apply(&e, obs, sizeof obs);
    fprintf(TF, "{\"a\":\"%s\",\"b\":%d,\"s\":%ld,\"d\":%d,\"c\":%d,\"k\":\"%s\",\"obs\":[%s],\"proj\":[", act, b, s, d, c, k ? k : "", obs);
    for (int x = 1; x <= NB; x++)
        fprintf(TF, "%s[%d,%zu,%d,%d]", x > 1 ? "," : "", B[x].live, B[x].live ? m_mem_size(B[x].ptr) : 0,
                B[x].live ? (int)(((uintptr_t)B[x].ptr % alignof(max_align_t)) == 0) : 0, B[x].live ? pattern_ok(x) : 0);
    fprintf(TF, "]}\n");
    tr_events++;
}
/* generator-side bookkeeping of who owns which reference (preconditions only, not an oracle) */
static void g_unref(int b) {
    g_held[b]--;
}
static void g_sync(void) { for (int b = 1; b <= NB; b++) if (!B[b].live) { g_held[b] = 0; if (B[b].child) { B[b].child = 0; } g_par[b] = 0; } 
    for (int b = 1; b <= NB; b++) if (g_par[b] && !B[g_par[b]].live) g_par[b] = 0; }

static int trace_main(const char *out, unsigned seed, long nrandom, int maxsize) {
    TF = fopen(out, "w");
    if (!TF) return 2;
    nblocks = NB;
    for (int b = 0; b <= NB; b++) memset(&B[b], 0, sizeof B[b]);
    srand(seed);
    /* phase 1: every size 0..maxsize, with and without destructor, alone and as a nested child */
    for (long s = 0; s <= maxsize; s++) {
        int d = (int)(s & 1);
        tr_do("New", 1, s, d, 0, NULL); tr_do("SizeOf", 1, 0, 0, 0, NULL);
        tr_do("Ref", 1, 0, 0, 0, NULL); tr_do("Unref", 1, 0, 0, 0, NULL);
        if (s % 7 == 0) { tr_do("New", 2, s / 2, 1, 1, NULL); tr_do("Unrefp", 2, 0, 0, 0, NULL); }
        else tr_do(s % 3 ? "Unref" : "Unrefp", 1, 0, 0, 0, NULL);
    }
    fprintf(TF, "{\"a\":\"Reset\"}\n");
    for (int b = 0; b <= NB; b++) memset(&B[b], 0, sizeof B[b]);
    /* phase 1b: a chain of 40 nested blocks (each one's destructor drops the only reference on the next): the last unref runs 40
       destructors inside one another, innermost block released first */
    for (int i = 1; i <= 40; i++) tr_do("New", i, 8 + i, 1, i - 1, NULL);
    tr_do("SizeOf", 1, 0, 0, 0, NULL);
    tr_do("Unref", 40, 0, 0, 0, NULL);
    /* phase 1c: more references on one block than 16 bits can count */
    tr_do("New", 1, 24, 1, 0, NULL);
    tr_do("RefN", 1, 70000, 0, 0, NULL);
    tr_do("Unref", 1, 0, 0, 0, NULL);
    tr_do("SizeOf", 1, 0, 0, 0, NULL);
    tr_do("UnrefN", 1, 69999, 0, 0, NULL);
    tr_do("SizeOf", 1, 0, 0, 0, NULL);
    tr_do("Unref", 1, 0, 0, 0, NULL);
    fprintf(TF, "{\"a\":\"Reset\"}\n");
    for (int b = 0; b <= NB; b++) { memset(&B[b], 0, sizeof B[b]); g_held[b] = g_par[b] = g_dt[b] = 0; }
    /* phase 2: random population of 8 blocks */
    for (long i = 0; i < nrandom; i++) {
        g_sync();
        int b = 1 + rand() % NBR, r = rand() % 100;
        if (!B[b].live) {
            if (r < 60) {
                int c = 0, d = rand() & 1;
                int cand = 1 + rand() % NBR;
                if (d && cand != b && B[cand].live && g_held[cand] > 0 && g_par[cand] == 0 && (rand() & 1)) c = cand;
                long sz = rand() % 5 == 0 ? rand() % 4096 : rand() % 64;
                tr_do("New", b, sz, d, c, NULL);
                g_held[b] = 1; g_dt[b] = d;
                if (c) { g_held[c]--; g_par[c] = b; }
            } else {
                static const char *ks[] = {"ref", "unref", "unrefp", "unrefp_null", "size"};
                tr_do("NullOp", 0, 0, 0, 0, ks[rand() % 5]);
            }
        } else if (g_held[b] > 0) {
            if (r < 35) { tr_do("Ref", b, 0, 0, 0, NULL); g_held[b]++; }
            else if (r < 70) { tr_do(r & 1 ? "Unref" : "Unrefp", b, 0, 0, 0, NULL); g_unref(b); }
            else tr_do("SizeOf", b, 0, 0, 0, NULL);
        }
    }
    /* drop everything */
    for (int any = 1; any; ) {            /* (a block may have gathered any number of references during the random phase) */
        any = 0;
        g_sync();
        for (int b = 1; b <= NB; b++) if (B[b].live && g_held[b] > 0) { tr_do("Unref", b, 0, 0, 0, NULL); g_unref(b); g_sync(); any = 1; }
    }
    fclose(TF);
    printf("TRACE {\"events\": %ld, \"outstanding\": %ld}\n", tr_events, vp_outstanding);
    return 0;
}

int main(int argc, char **argv) {
    if (argc >= 6 && !strcmp(argv[1], "--trace")) {
        vp_alloc_install();
        vp_free_cb = on_free;
        return trace_main(argv[2], (unsigned)atoi(argv[3]), atol(argv[4]), atoi(argv[5]));
    }
    if (getenv("VP_NBLOCKS")) nblocks = atoi(getenv("VP_NBLOCKS"));
    vp_alloc_install();
    vp_free_cb = on_free;
    return gw_main(argc, argv);
}
