/* drv_core.c - replays Core.tla behaviours through the real libmodule core.
 *
 * A program is a path of the TLC state graph.  Its edges are user-visible steps only: public API calls made from
 * the top level or from inside a callback, and callback returns (CbReturn).  One global cursor walks the program;
 * API calls re-enter the driver through the callback trampolines, which check that the callback the library makes
 * is the one on top of the spec's control stack (module, kind, events handed over) and then execute the program's
 * next steps until the matching CbReturn.  After every completed API call and at every callback entry the
 * projection of the real library state is compared with the spec state reached by the cursor.
 *
 * Linked with -Wl,--wrap= for epoll_wait (the poll batch is the one the program prescribes; the really-ready set is
 * compared with the spec's), write (virtual mailbox capacity), pipe/close/epoll_create1 (descriptor ledger).
 *
 * env: VP_MODS="A,B"  VP_HOOKS="A:esx,B:x"  VP_FLAGS="A:R,B:PCUS" (R replace P persist C denyctx U denypub S denysub)
 *      VP_CTXPERSIST=0|1  VP_CAP=<mailbox capacity> */
#define VP_TLS __thread
#include "gw.h"
#include "vp_alloc.h"
#include <sys/epoll.h>
#include <sys/ioctl.h>
#include <fcntl.h>
#include <signal.h>
#include "public/module/ctx.h"
#include "public/module/mod.h"
#include <sys/eventfd.h>
#include <sys/timerfd.h>
#include <sys/signalfd.h>
#include <sys/inotify.h>
#include <sys/syscall.h>
#include <sys/wait.h>
#include <sys/stat.h>
#include <semaphore.h>
#include <spawn.h>
#include <time.h>
#include "ctx.h"      /* white-box reads only: ctx->stats.running_modules, ev_src_t.mod/type (attribution of poll events) */

#define NM 4
static int nmods;
static char LN[NM][8];                 /* logical names as in the spec ("A", "B", ...) */
static char RN[NM][16];                /* real names registered with the library (chosen so that the table order is LN order) */
static VP_TLS m_mod_t *H[NM];
static VP_TLS int hcnt[NM];                   /* references the program holds on H[i] */
static VP_TLS m_evt_t *HELD[8]; static VP_TLS int nheld;   /* events retained by the program */
static char hooks[NM][8], flags[NM][16];
static int ctx_persist, cap = 2, maxpay = 1, nkeys = 1;

/* ---- payloads ---- */
#define NP 8
static VP_TLS struct { void *ptr; int watch; int autofree; int live; } PAY[NP + 1];

static VP_TLS int errno_to_leave;
/* ---- cursor ---- */
static VP_TLS const int *P; static VP_TLS int PN, cursor, cur_state, depth, failed;
static VP_TLS int last_ret;
static VP_TLS int in_program;
/* ---- loop mode (C03: "driving the same context through dispatch calls produces the same deliveries") ----
 * The same programs are driven through blocking m_ctx_loop() calls: a Dispatch step that starts the loop becomes the call,
 * the Dispatch steps that deliver a batch become returns of the wrapped epoll_wait, the top-level steps in between are executed
 * from inside the wrapped epoll_wait (outside any callback, exactly like between two dispatch calls), and the Dispatch step that
 * stops the loop is what m_ctx_loop() does by itself before it returns the quit code. */
static unsigned long long bt_ns = 7000000ULL;
static int bad_keys[16];              /* VP_BADKEYS: pid keys that name no process */
static int loop_mode;
static VP_TLS int in_loop;
static VP_TLS int prog_loopable;
static VP_TLS const char *loop_expect_ready;
static void fail(const char *sig, const char *fmt, ...);
static void arm_joins(int a, int b, const char *act);
static long loop_call(gw_edge *start);
static int spec_stop_pending(int st) {       /* looping and (quit requested or nothing running): the next dispatch is the stop */
    const char *p = gw_states[st].proj;
    if (strncmp(p, "ctx:looping,", 12)) return 0;
    int len = 0, run = 0, quit = 0;
    sscanf(p + 12, "%d,%d,%d", &len, &run, &quit);
    return quit || run == 0;
}
static int next_is_dispatch(void) { return cursor < PN && !strcmp(gw_edges[P[cursor]].act, "Dispatch"); }
static void consume_stop_edge(void) {        /* the library is about to run (or has run) loop_stop() */
    if (in_loop == 1 && next_is_dispatch() && spec_stop_pending(cur_state)) { arm_joins(gw_edges[P[cursor]].src, gw_edges[P[cursor]].dst, "Dispatch"); cur_state = gw_edges[P[cursor]].dst; cursor++; in_loop = 2; }
}
static int program_loopable(const int *prog, int n) {
    /* not loop-replayable: a top-level step other than the stopping dispatch is taken while the stop is pending */
    for (int i = 0; i < n; i++) {
        gw_edge *e = &gw_edges[prog[i]];
        if (strstr(gw_states[e->src].proj, "|d0|-") && spec_stop_pending(e->src) && strcmp(e->act, "Dispatch")) return 0;
    }
    return 1;
}
static void parse_batch(const char *arg);
static int loop_poll(int epfd, struct epoll_event *events, int maxevents);


static int task_mode;
static sem_t task_notified;                      /* posted after a task thread wrote its notification */
static pid_t paths_owner;
/* ---- descriptor ledger (library-opened descriptors) ---- */
#define MAXFD 1024
static VP_TLS unsigned char fd_lib[MAXFD];     /* 1 = opened by the library and still open */
static VP_TLS int pipe_peer[MAXFD];            /* write end -> read end */
static VP_TLS int ufd_r_[4] = {-1, -1, -1, -1};
#define ufd_r ufd_r_
static int lib_fds_open(void) { int n = 0; for (int i = 0; i < MAXFD; i++) n += fd_lib[i]; return n; }

int __real_pipe(int fds[2]);
int __real_close(int fd);
int __real_epoll_create1(int fl);
int __real_epoll_wait(int epfd, struct epoll_event *ev, int max, int timeout);
ssize_t __real_write(int fd, const void *buf, size_t n);

int __wrap_pipe(int fds[2]) {
    int r = __real_pipe(fds);
    if (r == 0 && in_program && fds[0] < MAXFD && fds[1] < MAXFD) { fd_lib[fds[0]] = fd_lib[fds[1]] = 1; pipe_peer[fds[1]] = fds[0]; pipe_peer[fds[0]] = -1; }
    return r;
}
int __wrap_epoll_create1(int fl) {
    int r = __real_epoll_create1(fl);
    if (r >= 0 && in_program && r < MAXFD) fd_lib[r] = 1;
    return r;
}
static VP_TLS struct { int w; char path[64]; unsigned mask; } vino[MAXFD];
static VP_TLS int double_close;
int __wrap_close(int fd) {
    if (in_program && fd >= 0 && fd < MAXFD) {
        if (fd_lib[fd]) { fd_lib[fd] = 0; pipe_peer[fd] = 0; }
        if (vino[fd].w > 0) { __real_close(vino[fd].w); vino[fd].w = 0; }
        for (int k = 1; k <= 3; k++) if (ufd_r_[k] == fd) ufd_r_[k] = -2;      /* a user descriptor closed by the library (auto-close) */
    }
    int r = __real_close(fd);
    if (in_program && r != 0) double_close++;
    return r;
}
ssize_t __wrap_write(int fd, const void *buf, size_t n) {
    /* virtual mailbox capacity: a module pipe holds at most `cap` message pointers */
    if (in_program && fd >= 0 && fd < MAXFD && fd_lib[fd] && pipe_peer[fd] > 0 && n == sizeof(void *)) {
        int pending = 0;
        ioctl(pipe_peer[fd], FIONREAD, &pending);
        if (pending / (int)sizeof(void *) >= cap) { errno = EAGAIN; return -1; }
    }
    ssize_t wr = __real_write(fd, buf, n);
    if (!in_program && task_mode && n == 8) sem_post(&task_notified);    /* (in_program is per thread: this is a task thread's notification) */
    return wr;
}

/* library-owned descriptors of signal / path / pid / task / threshold sources (ledger only) */
int __real_eventfd(unsigned int v, int fl);
int __wrap_eventfd(unsigned int v, int fl) { int r = __real_eventfd(v, fl); if (r >= 0 && in_program && r < MAXFD) fd_lib[r] = 1; return r; }
int __real_signalfd(int fd, const sigset_t *m, int fl);
int __wrap_signalfd(int fd, const sigset_t *m, int fl) { int r = __real_signalfd(fd, m, fl); if (r >= 0 && in_program && r < MAXFD) fd_lib[r] = 1; return r; }
/* path watches are virtual (closing a real inotify instance takes the kernel ~10 ms): an instance is a pipe into which PathTouch
   writes the event records the kernel would queue for the watches that exist at that moment; what the library asks to watch is recorded */
int __real_inotify_init1(int fl);
int __wrap_inotify_init1(int fl) {
    if (!in_program) return __real_inotify_init1(fl);
    int p[2];
    if (__real_pipe(p) != 0) return -1;
    if (p[0] >= MAXFD || p[1] >= MAXFD) { __real_close(p[0]); __real_close(p[1]); errno = EMFILE; return -1; }
    fcntl(p[0], F_SETFL, O_NONBLOCK); fcntl(p[1], F_SETFL, O_NONBLOCK); fcntl(p[0], F_SETFD, FD_CLOEXEC); fcntl(p[1], F_SETFD, FD_CLOEXEC);
    fd_lib[p[0]] = 1; vino[p[0]].w = p[1]; vino[p[0]].path[0] = 0; vino[p[0]].mask = 0;
    return p[0];
}
int __real_inotify_add_watch(int fd, const char *path, unsigned mask);
int __wrap_inotify_add_watch(int fd, const char *path, unsigned mask) {
    if (!in_program || fd < 0 || fd >= MAXFD || vino[fd].w <= 0) return __real_inotify_add_watch(fd, path, mask);
    snprintf(vino[fd].path, sizeof vino[fd].path, "%s", path ? path : "");
    vino[fd].mask = mask;
    return 1;
}
long __real_syscall(long n, long a, long b, long c, long d, long e, long f);
long __wrap_syscall(long n, long a, long b, long c, long d, long e, long f) {
    long r = __real_syscall(n, a, b, c, d, e, f);
    if (n == SYS_pidfd_open && r >= 0 && in_program && r < MAXFD) fd_lib[r] = 1;
    return r;
}

/* ---- tasks: the user's function blocks on a gate until the program says TaskFinish (or the library waits for it) ---- */
#define NTK 4
typedef struct { char ud[4]; int m, key; sem_t gate; volatile int entered, exited, released; } task_slot;
static task_slot TK[NM][NTK];
static VP_TLS volatile int task_release_on_join;        /* the spec expects the library to wait for the running tasks during this step */
static VP_TLS volatile int task_joined;
static volatile int task_free_run;             /* the library is waiting for its tasks: whatever starts now returns at once */
static int pool_size;                          /* VP_POOLSZ: threads of the context's task pool (0 = the library's own 16) */
#include "public/module/thpool/thpool.h"
m_thpool_t *__real_m_thpool_new(uint8_t n, m_thpool_flags fl);
m_thpool_t *__wrap_m_thpool_new(uint8_t n, m_thpool_flags fl) { return __real_m_thpool_new(pool_size ? (uint8_t)pool_size : n, fl); }
static int task_fn(void *ud) {
    task_slot *t = ud;
    vp_foreign_thread = 1;
    __atomic_add_fetch(&t->entered, 1, __ATOMIC_SEQ_CST);
    if (__atomic_load_n(&task_free_run, __ATOMIC_SEQ_CST)) { __atomic_add_fetch(&t->released, 1, __ATOMIC_SEQ_CST); __atomic_add_fetch(&t->exited, 1, __ATOMIC_SEQ_CST); return 40 + t->key; }
    sem_wait(&t->gate);
    __atomic_add_fetch(&t->exited, 1, __ATOMIC_SEQ_CST);
    return 40 + t->key;
}
static int task_running(int m, int key) { return __atomic_load_n(&TK[m][key].entered, __ATOMIC_SEQ_CST) - __atomic_load_n(&TK[m][key].exited, __ATOMIC_SEQ_CST); }
static int wait_notified(void) { struct timespec ts; clock_gettime(CLOCK_REALTIME, &ts); ts.tv_sec += 5; return sem_timedwait(&task_notified, &ts); }
static int task_release_all(void) {            /* open the gate of every thread inside the user's function; returns how many */
    int n = 0;
    for (int m = 0; m < NM; m++) for (int k = 1; k < NTK; k++)
        while (__atomic_load_n(&TK[m][k].entered, __ATOMIC_SEQ_CST) > TK[m][k].released) { TK[m][k].released++; sem_post(&TK[m][k].gate); n++; }
    return n;
}
int __real_pthread_join(pthread_t th, void **ret);
int __wrap_pthread_join(pthread_t th, void **ret) {
    if (in_program && task_mode) {
        /* the library waits for its task threads: the user's functions return now (if the spec expects this wait; else they stay
           blocked and the program hangs: an unexpected wait is reported as core-hang) */
        if (task_release_on_join) { __atomic_store_n(&task_free_run, 1, __ATOMIC_SEQ_CST); task_joined += task_release_all(); }
    }
    return __real_pthread_join(th, ret);
}

/* ---- virtual time: timerfds are eventfds that the program fires (TmrFire / tick) ---- */
int __real_timerfd_create(int clockid, int flags);
int __wrap_timerfd_create(int clockid, int flags) {
    if (!in_program) return __real_timerfd_create(clockid, flags);
    int fd = __real_eventfd(0, EFD_NONBLOCK | EFD_CLOEXEC);
    if (fd >= 0 && fd < MAXFD) fd_lib[fd] = 1;
    return fd;
}
static VP_TLS unsigned long long last_settime_ns;
int __real_timerfd_settime(int fd, int flags, const struct itimerspec *nv, struct itimerspec *ov);
int __wrap_timerfd_settime(int fd, int flags, const struct itimerspec *nv, struct itimerspec *ov) {
    if (!in_program) return __real_timerfd_settime(fd, flags, nv, ov);
    last_settime_ns = (unsigned long long)nv->it_value.tv_sec * 1000000000ULL + nv->it_value.tv_nsec;
    return 0;
}

/* ---- user descriptors (fd sources): key -> pipe owned by the program ---- */
#define NKEY 3
static VP_TLS int ufd_w[NKEY + 1];
static void ufd_open(int k) { int p[2]; if (__real_pipe(p) == 0) { ufd_r[k] = p[0]; ufd_w[k] = p[1]; fcntl(p[0], F_SETFL, O_NONBLOCK); fcntl(p[1], F_SETFL, O_NONBLOCK); fcntl(p[0], F_SETFD, FD_CLOEXEC); fcntl(p[1], F_SETFD, FD_CLOEXEC); } }
static int ufd_is_open(int k) { return ufd_r[k] >= 0; }
static const unsigned long long TMR_NS[NKEY + 1] = {0, 1000000ULL, 5000000000ULL, 5000000001ULL};

/* ---- signals, watched paths, watched processes (owned by the program) ---- */
static const int SIGS[NKEY + 1] = {0, SIGUSR1, SIGUSR2, SIGWINCH};
static char PATHS[NKEY + 1][64];
static VP_TLS pid_t kid[NKEY + 1], kid_parent[NKEY + 1]; static VP_TLS int kid_w[NKEY + 1];
static void paths_init(void) {
    paths_owner = getpid();
    for (int k = 1; k <= NKEY; k++) { snprintf(PATHS[k], sizeof PATHS[k], "/var/tmp/vp-core-%d-k%d", (int)getpid(), k); mkdir(PATHS[k], 0700); }
}
static void paths_fini(void) { if (getpid() == paths_owner) for (int k = 1; k <= NKEY; k++) rmdir(PATHS[k]); }
static void signals_drain(void) {
    sigset_t ss; sigemptyset(&ss); for (int k = 1; k <= NKEY; k++) sigaddset(&ss, SIGS[k]);
    struct timespec zero = {0, 0};
    while (sigtimedwait(&ss, NULL, &zero) > 0);
}
static pid_t kid_of(int k) {                     /* a child process that lives until the program says PidExit */
    if (kid[k] > 0 && kid_parent[k] == getpid()) return kid[k];     /* (a child of an earlier replay process is not ours) */
    int p[2];
    if (__real_pipe(p) != 0) return -1;
    /* posix_spawn (vfork-like): forking the sanitized replay process itself costs tens of milliseconds */
    pid_t c = -1;
    posix_spawn_file_actions_t fa;
    posix_spawn_file_actions_init(&fa);
    posix_spawn_file_actions_adddup2(&fa, p[0], 0);
    posix_spawn_file_actions_addclose(&fa, p[1]);
    posix_spawn_file_actions_addopen(&fa, 1, "/dev/null", O_WRONLY, 0);
    char *argv[] = {"cat", NULL}, *envp[] = {NULL};
    if (posix_spawn(&c, "/bin/cat", &fa, NULL, argv, envp) != 0) c = -1;      /* cat lives until its input (our end of the pipe) is closed */
    posix_spawn_file_actions_destroy(&fa);
    __real_close(p[0]);
    fcntl(p[1], F_SETFD, FD_CLOEXEC);
    kid[k] = c; kid_w[k] = p[1]; kid_parent[k] = getpid();
    return c;
}
static void kid_exit(int k) {
    if (kid_of(k) <= 0 || kid_w[k] < 0) return;
    __real_close(kid_w[k]); kid_w[k] = -1;
    siginfo_t si; waitid(P_PID, (id_t)kid[k], &si, WEXITED | WNOWAIT);      /* exited, not reaped: its pid stays valid */
}
static void kids_reap(void) {            /* processes that exited in this program are reaped; the others serve the next program */
    for (int k = 1; k <= NKEY; k++) if (kid[k] > 0 && kid_parent[k] == getpid() && kid_w[k] < 0) { int st; waitpid(kid[k], &st, 0); kid[k] = 0; }
}

/* ---- poll control ---- */
static VP_TLS struct { int m; char kind[8]; int key; } batch[8];
static VP_TLS int nbatch, batch_armed, intr_armed;
static VP_TLS char ready_seen[160];
static VP_TLS int poll_calls;
static int midx(const char *real) { if (!real) return -1; for (int i = 0; i < nmods; i++) if (!strcmp(RN[i], real)) return i; return -1; }

#define SRC_INTERNAL (1 << 7)
static int src_matches(ev_src_t *src, int m, const char *kind, int key) {
    if (!src) return 0;
    if (!strcmp(kind, "tick")) return !src->mod && src->type == M_SRC_TYPE_TMR;
    if (!src->mod || midx(m_mod_name(src->mod)) != m) return 0;
    if (!strcmp(kind, "ps")) return src->type == M_SRC_TYPE_PS;
    if (!strcmp(kind, "fd")) return src->type == M_SRC_TYPE_FD && src->fd_src.fd == ufd_r[key];
    if (!strcmp(kind, "tmr")) return src->type == M_SRC_TYPE_TMR && !(src->flags & SRC_INTERNAL) && src->tmr_src.its.ns == TMR_NS[key];
    if (!strcmp(kind, "sgn")) return src->type == M_SRC_TYPE_SGN && (int)src->sgn_src.sgs.signo == SIGS[key];
    if (!strcmp(kind, "path")) return src->type == M_SRC_TYPE_PATH && !strcmp(src->path_src.pt.path, PATHS[key]);
    if (!strcmp(kind, "pid")) return src->type == M_SRC_TYPE_PID && src->pid_src.pid.pid == kid[key];
    if (!strcmp(kind, "task")) return src->type == M_SRC_TYPE_TASK && src->task_src.tid.tid == key;
    if (!strcmp(kind, "tb")) return src->type == M_SRC_TYPE_TMR && (src->flags & SRC_INTERNAL) && src->userptr == &src->mod->tb;
    if (!strcmp(kind, "bt")) return src->type == M_SRC_TYPE_TMR && (src->flags & SRC_INTERNAL) && src->userptr == &src->mod->batch;
    return 0;
}
int __wrap_epoll_wait(int epfd, struct epoll_event *events, int maxevents, int timeout) {
    if (!in_program) return __real_epoll_wait(epfd, events, maxevents, timeout);
    struct epoll_event tmp[64];
    if (in_loop == 1 && !batch_armed) {
        /* blocking loop: run the program's top-level steps from here until it prescribes the next batch (or the stop) */
        int lr = loop_poll(epfd, events, maxevents);
        if (lr == 2) { errno = EINTR; return -1; }                   /* DispatchIntr: the poll is interrupted by a signal handler */
        if (lr <= 0) { errno = 0; return 0; }
        batch_armed = 1;
    }
    if (intr_armed) { intr_armed = 0; poll_calls++; errno = EINTR; return -1; }
    int n = __real_epoll_wait(epfd, tmp, 64, 0);
    poll_calls++;
    /* the really-ready set (mailboxes, user descriptors, timers, internal timers), rendered like the spec's Ready() */
    size_t k = 0;
    ready_seen[0] = 0;
    for (int mi = 0; mi < nmods; mi++) {
        for (int i = 0; i < n; i++) if (src_matches(tmp[i].data.ptr, mi, "ps", 0)) { k += snprintf(ready_seen + k, sizeof ready_seen - k, "%sp0,", LN[mi]); break; }
        for (int key = 1; key <= NKEY; key++) for (int i = 0; i < n; i++) if (src_matches(tmp[i].data.ptr, mi, "fd", key)) { k += snprintf(ready_seen + k, sizeof ready_seen - k, "%sf%d,", LN[mi], key); break; }
        for (int key = 1; key <= NKEY; key++) for (int i = 0; i < n; i++) if (src_matches(tmp[i].data.ptr, mi, "tmr", key)) { k += snprintf(ready_seen + k, sizeof ready_seen - k, "%st%d,", LN[mi], key); break; }
        static const struct { const char *kind; char c; } XK[] = {{"sgn", 'g'}, {"path", 'h'}, {"pid", 'i'}, {"task", 'j'}};
        for (int x = 0; x < 4; x++) for (int key = 1; key <= NKEY; key++) for (int i = 0; i < n; i++)
            if (src_matches(tmp[i].data.ptr, mi, XK[x].kind, key)) { k += snprintf(ready_seen + k, sizeof ready_seen - k, "%s%c%d,", LN[mi], XK[x].c, key); break; }
        for (int i = 0; i < n; i++) if (src_matches(tmp[i].data.ptr, mi, "tb", 0)) { k += snprintf(ready_seen + k, sizeof ready_seen - k, "%sb0,", LN[mi]); break; }
        for (int i = 0; i < n; i++) if (src_matches(tmp[i].data.ptr, mi, "bt", 0)) { k += snprintf(ready_seen + k, sizeof ready_seen - k, "%so0,", LN[mi]); break; }
    }
    for (int i = 0; i < n; i++) if (src_matches(tmp[i].data.ptr, -1, "tick", 0)) { k += snprintf(ready_seen + k, sizeof ready_seen - k, "k0,"); break; }
    if (!batch_armed) return 0;
    batch_armed = 0;
    if (in_loop == 1 && loop_expect_ready) {
        const char *exp = loop_expect_ready + 1;
        loop_expect_ready = NULL;
        if (strcmp(exp, ready_seen)) { fail("core-Dispatch-ready-set", "sources reported ready by the real poll: {%s}, spec: {%s}", ready_seen, exp); return 0; }
    }
    int out = 0;
    for (int b = 0; b < nbatch && out < maxevents; b++)
        for (int i = 0; i < n; i++)
            if (src_matches(tmp[i].data.ptr, batch[b].m, batch[b].kind, batch[b].key)) { events[out++] = tmp[i]; break; }
    /* a one-shot registration is disarmed by the kernel once reported: what this wrapper did not pass on must be re-armed */
    for (int i = 0; i < n; i++) {
        int passed = 0;
        for (int o = 0; o < out; o++) if (events[o].data.ptr == tmp[i].data.ptr) passed = 1;
        ev_src_t *src = tmp[i].data.ptr;
        if (!passed && src && (src->flags & M_SRC_ONESHOT)) {
            struct epoll_event ev = {.events = EPOLLIN | EPOLLONESHOT, .data.ptr = src};
            epoll_ctl(epfd, EPOLL_CTL_MOD, src->fd_src.fd, &ev);
        }
    }
    errno = 0;
    return out;
}

/* ---- projection ---- */
static const char *stname(m_mod_t *h) {
    if (!h) return "none";
    switch (m_mod_state(h)) {
    case M_MOD_IDLE: return "idle"; case M_MOD_RUNNING: return "running"; case M_MOD_PAUSED: return "paused";
    case M_MOD_STOPPED: return "stopped"; case M_MOD_ZOMBIE: return "zombie"; default: return "?";
    }
}
static int pipe_len_of(m_mod_t *h) {
    /* pending messages in the module's mailbox: read end = peer of a registered write end; found through the ledger:
       the module's pipe descriptors are private, so look for the poll registration instead: count via FIONREAD on every
       library pipe whose poll source belongs to the module is not possible without white-box access; use the struct. */
    return -1;
}
#include "mod.h"
static int mailbox_len(m_mod_t *h) {
    if (!h || m_mod_state(h) == M_MOD_ZOMBIE) return 0;
    int fd = h->pubsub_fd[0];
    if (fd < 0) return 0;
    int pending = 0;
    if (ioctl(fd, FIONREAD, &pending) != 0) return 0;
    return pending / (int)sizeof(void *);
}

static VP_TLS char evdesc[1024];
static int evdesc_cb(void *up, void *data);
static void project(char *buf, size_t n, const char *topdesc) {
    size_t k = 0;
    m_ctx_t *c = m_ctx();
    const char *cn = m_ctx_name();
    /* m_ctx() is NULL inside callbacks of DENY_CTX modules: then only what the module handles show is projected */
    if (!cn && depth == 0) k += snprintf(buf + k, n - k, "ctx:none,0,0,0,t0");
    else if (!c) k += snprintf(buf + k, n - k, "ctx:hidden");
    else {
        /* module counts as the context reports them: through m_ctx_stats() while it loops (the call is refused otherwise) */
        long nmod = (long)m_ctx_len(); size_t nrun = c->stats.running_modules;
        if (c->state == M_CTX_LOOPING) {
            m_ctx_stats_t st; memset(&st, 0, sizeof st);
            if (m_ctx_stats(&st) == 0) { nmod = (long)st.num_modules; nrun = st.running_modules; } else nrun = 777;
        }
        k += snprintf(buf + k, n - k, "ctx:%s,%ld,%zu,%d,t%d", c->state == M_CTX_LOOPING ? "looping" : "idle", nmod, nrun, (int)c->quit,
                       !c->tick.src ? 0 : c->tick.src->tmr_src.its.ns == TMR_NS[1] ? 1 : c->tick.src->tmr_src.its.ns == TMR_NS[2] ? 2 : 9);
    }
    for (int i = 0; i < nmods; i++)
        if (H[i] && m_mod_state(H[i]) != M_MOD_ZOMBIE)
            k += snprintf(buf + k, n - k, "|%s:%s:%d:%d:%d:%d:%d:%d:%d", LN[i], stname(H[i]), mailbox_len(H[i]), (int)m_queue_len(H[i]->batch.events),
                          (int)m_queue_len(H[i]->stashed), (int)m_stack_len(H[i]->recvs), (int)(H[i]->batch.len > 99 ? 99 : H[i]->batch.len),
                          H[i]->tb.burst != UINT64_MAX ? (int)(H[i]->tb.tokens > 9 ? 9 : H[i]->tb.tokens) : -1, H[i]->batch.timer.ns != 0);
        else k += snprintf(buf + k, n - k, "|%s:%s:0:0:0:0:0:-1:0", LN[i], stname(H[i]));
    /* source counts per kind through the public API (subscriptions, fd, tmr, sgn, path, pid, task, thresh), and the total */
    k += snprintf(buf + k, n - k, "|src:");
    for (int i = 0; i < nmods; i++) {
        k += snprintf(buf + k, n - k, "%s", i ? "," : "");
        if (!H[i] || m_mod_state(H[i]) == M_MOD_ZOMBIE) { k += snprintf(buf + k, n - k, "-"); continue; }
        if (c) {
            for (int t = M_SRC_TYPE_PS; t <= M_SRC_TYPE_END; t++) { long v = (long)m_mod_src_len(H[i], t); k += snprintf(buf + k, n - k, "%ld%s", v < 0 ? -1 : v, t < M_SRC_TYPE_END ? "." : ""); }
        } else k += snprintf(buf + k, n - k, "hidden");
    }
    k += snprintf(buf + k, n - k, "|ufd:");
    for (int key = 1; key <= nkeys; key++) k += snprintf(buf + k, n - k, "%c", ufd_is_open(key) ? 'o' : 'c');
    k += snprintf(buf + k, n - k, "|held:");
    {
        char save[sizeof evdesc];
        memcpy(save, evdesc, sizeof save);
        evdesc[0] = 0;
        for (int q = 0; q < nheld; q++) evdesc_cb(NULL, HELD[q]);
        k += snprintf(buf + k, n - k, "%s", evdesc[0] ? evdesc : "_");
        memcpy(evdesc, save, sizeof save);
    }
    k += snprintf(buf + k, n - k, "|pay:");
    for (int p = 1; p <= maxpay; p++) k += snprintf(buf + k, n - k, "%c", !PAY[p].live ? 'u' : vp_watch_freed[PAY[p].watch] ? (vp_watch_freed[PAY[p].watch] > 1 ? '2' : 'f') : 'l');
    k += snprintf(buf + k, n - k, "|tk:");
    {
        int any = 0;
        for (int i = 0; i < nmods; i++) for (int key = 1; key < NTK; key++) {
            int r = task_mode ? task_running(i, key) : 0;
            if (r == 1) k += snprintf(buf + k, n - k, "%s%s%d", any++ ? "," : "", LN[i], key);
            else if (r > 1) k += snprintf(buf + k, n - k, "%s%s%dx%d", any++ ? "," : "", LN[i], key, r);      /* the function runs several times at once */
        }
        if (!any) k += snprintf(buf + k, n - k, "_");
    }
    snprintf(buf + k, n - k, "|d%d|%s", depth, topdesc);
}

/* ---- mismatch handling ---- */
static void fail(const char *sig, const char *fmt, ...) {
    if (failed) return;
    failed = 1;
    char msg[3000];
    va_list ap; va_start(ap, fmt); vsnprintf(msg, sizeof msg, fmt, ap); va_end(ap);
    int step = cursor > 0 ? cursor - 1 : 0;
    gw_cur_step = step;
    gw_mismatch(P, PN, step, sig, "%s", msg);
    if (gw_forked) gw_resume_exit();
    gw_print_stats(0);
    fflush(stdout);
    _exit(1);
}

static const char *canon_sig(char *out, size_t n, const char *what) {
    /* signature = action at which it shows + what differs + context: is the target module in the table (registered)? */
    gw_edge *e = cursor > 0 ? &gw_edges[P[cursor - 1]] : NULL;
    snprintf(out, n, "core-%s-%s", e ? e->act : "start", what);
    return out;
}

/* tasks are asynchronous: wait (bounded) until the threads the spec expects are inside the user's function; threads the spec
   expected the library to wait for during this step and that it did not wait for are let go now - whatever they touch must
   still be valid */
static void task_settle(const char *exp) {
    if (task_release_on_join) {
        task_release_on_join = 0;
        task_joined += task_release_all();
    }
    for (; task_joined > 0; task_joined--) if (wait_notified() != 0) { fail("core-task-no-notification", "a task whose function returned did not notify the loop within 5 s"); return; }
    if (task_free_run) { __atomic_store_n(&task_free_run, 0, __ATOMIC_SEQ_CST); while (sem_trywait(&task_notified) == 0); }     /* (tasks that were queued ran during the wait) */
    const char *tk = strstr(exp, "|tk:");
    if (!tk) return;
    tk += 4;
    while (*tk && *tk != '|' && *tk != '_') {
        char nm[2] = {*tk, 0};
        int mi = -1; for (int i = 0; i < nmods; i++) if (!strcmp(LN[i], nm)) mi = i;
        int key = tk[1] - '0';
        for (int spin = 0; mi >= 0 && key > 0 && key < NTK && task_running(mi, key) < 1 && spin < 5000; spin++) usleep(1000);
        tk += 2;
        if (*tk == ',') tk++;
    }
}
static void compare(const char *topdesc, int check_ret) {
    char proj[1024], sig[160];
    gw_state *st = &gw_states[cur_state];
    if (task_mode) task_settle(st->proj);
    project(proj, sizeof proj, topdesc);
    /* inside a DENY_CTX callback the context is hidden from the driver: compare the rest */
    const char *exp = st->proj;
    if (!strncmp(proj, "ctx:hidden", 10)) {
        /* compare everything but the ctx and src fields */
        const char *a = strstr(proj, "|ufd:"), *b = strstr(exp, "|ufd:");
        const char *pa = strchr(proj, '|'), *pb = strchr(exp, '|');
        const char *sa = strstr(proj, "|src:"), *sb = strstr(exp, "|src:");
        if (!a || !b || !sa || !sb || strcmp(a, b) || (sa - pa) != (sb - pb) || strncmp(pa, pb, sa - pa)) goto bad;
    }
    else if (strcmp(proj, exp)) goto bad;
    if (check_ret) {
        char r[32]; snprintf(r, sizeof r, "%d;", last_ret);
        if (strncmp(r, st->obs, strlen(r))) fail(canon_sig(sig, sizeof sig, "ret"), "return value: expected %s got %s (state %s)", st->obs, r, proj);
    }
    return;
bad:
    fail(canon_sig(sig, sizeof sig, "state"), "expected %s ; got %s   [ctx:state,len,running,quit|mod:state:mailbox..|pay|depth|top frame]", st->proj, proj);
}

/* the step from spec state a to spec state b makes the library wait for the running task threads when tasks leave `trun`
   other than through TaskFinish */
static int tk_count(const char *proj) { const char *t = strstr(proj, "|tk:"); if (!t || t[4] == '_') return 0; int n = 1; for (t += 4; *t && *t != '|'; t++) if (*t == ',') n++; return n; }
static int tk_has(const char *proj, const char *item) {
    const char *t = strstr(proj, "|tk:"); if (!t) return 0;
    const char *e = strchr(t + 1, '|'); size_t L = strlen(item);
    for (t += 4; t && t < e; ) { if (!strncmp(t, item, L) && (t[L] == ',' || t[L] == '|')) return 1; t = memchr(t, ',', (size_t)(e - t)); if (t) t++; }
    return 0;
}
static void arm_joins(int a, int b, const char *act) {
    if (!task_mode || !strcmp(act, "TaskFinish")) return;
    const char *pa = gw_states[a].proj, *pb = gw_states[b].proj;
    const char *t = strstr(pa, "|tk:"); if (!t || t[4] == '_') return;
    char item[8];
    for (t += 4; *t && *t != '|'; ) {
        size_t L = 0; while (t[L] && t[L] != ',' && t[L] != '|' && L < 7) { item[L] = t[L]; L++; } item[L] = 0;
        if (!tk_has(pb, item)) { task_release_on_join = 1; return; }
        t += L; if (*t == ',') t++;
    }
}

/* ---- callbacks ---- */
static int lidx_of_mod(const m_mod_t *m) { for (int i = 0; i < nmods; i++) if (H[i] == m) return i; return midx(m_mod_name(m)); }
static void run_body(void);
static void exec_action(gw_edge *e);

static const char *logical_topic(const char *t, char *buf, size_t n) {
    if (!t) return "";
    if (!strcmp(t, "LIBMODULE_MOD_POISONPILL")) return "PILL";
    if (!strncmp(t, "LIBMODULE_", 10)) { snprintf(buf, n, "%s", t + 10); return buf; }
    return t;
}
static int pay_id(const void *p) {
    if (!p) return 0;
    for (int i = 1; i <= NP; i++) if (PAY[i].ptr == p && PAY[i].live && !vp_watch_freed[PAY[i].watch]) return i;   /* (addresses of released payloads get reused) */
    for (int i = 1; i <= NP; i++) if (PAY[i].ptr == p && PAY[i].live) return i;
    return 99;
}

static int evdesc_cb(void *up, void *data) {
    m_evt_t *evt = data;
    size_t k = strlen(evdesc);
    char tb[64];
    if (evt->type == M_SRC_TYPE_PS && evt->ps_evt) {
        const m_evt_ps_t *ps = evt->ps_evt;
        int si = ps->sender ? lidx_of_mod(ps->sender) : -1;
        snprintf(evdesc + k, sizeof evdesc - k, "%s%d/%s/%s/%d/%s", k ? ";" : "", pay_id(ps->data), ps->sender ? (si >= 0 ? LN[si] : "?") : "ctx",
                 logical_topic(ps->topic, tb, sizeof tb), (int)ps->system, evt->userdata ? (const char *)evt->userdata : "");
    } else if (evt->type == M_SRC_TYPE_FD && evt->fd_evt) {
        int key = 0; for (int q = 1; q <= NKEY; q++) if (ufd_r[q] == evt->fd_evt->fd) key = q;
        snprintf(evdesc + k, sizeof evdesc - k, "%s0/fd//0/%s", k ? ";" : "", evt->userdata ? (const char *)evt->userdata : "");
        (void)key;
    } else if (evt->type == M_SRC_TYPE_TMR && evt->tmr_evt) {
        snprintf(evdesc + k, sizeof evdesc - k, "%s0/tmr//0/%s", k ? ";" : "", evt->userdata ? (const char *)evt->userdata : "");
    } else if (evt->type == M_SRC_TYPE_SGN && evt->sgn_evt) {
        int key = 0; for (int q = 1; q <= NKEY; q++) if (SIGS[q] == (int)evt->sgn_evt->signo) key = q;
        snprintf(evdesc + k, sizeof evdesc - k, "%s0/sgn%s//0/%s", k ? ";" : "", key ? "" : "?", evt->userdata ? (const char *)evt->userdata : "");
    } else if (evt->type == M_SRC_TYPE_PATH && evt->path_evt) {
        int key = 0; for (int q = 1; q <= NKEY; q++) if (evt->path_evt->path && !strcmp(PATHS[q], evt->path_evt->path)) key = q;
        snprintf(evdesc + k, sizeof evdesc - k, "%s0/path%s//0/%s", k ? ";" : "", key && (evt->path_evt->events & IN_CREATE) ? "" : "?", evt->userdata ? (const char *)evt->userdata : "");
    } else if (evt->type == M_SRC_TYPE_PID && evt->pid_evt) {
        int key = 0; for (int q = 1; q <= NKEY; q++) if (kid[q] == evt->pid_evt->pid) key = q;
        snprintf(evdesc + k, sizeof evdesc - k, "%s0/pid%s//0/%s", k ? ";" : "", key ? "" : "?", evt->userdata ? (const char *)evt->userdata : "");
    } else if (evt->type == M_SRC_TYPE_TASK && evt->task_evt) {
        int key = (int)evt->task_evt->tid;
        snprintf(evdesc + k, sizeof evdesc - k, "%s0/task%s//0/%s", k ? ";" : "", evt->task_evt->retval == 40 + key ? "" : "?", evt->userdata ? (const char *)evt->userdata : "");
    } else snprintf(evdesc + k, sizeof evdesc - k, "%stype%d", k ? ";" : "", evt->type);
    return 0;
}

static VP_TLS const m_queue_t *cur_evts[16];
static bool enter_cb(m_mod_t *self, const char *kind, const m_queue_t *evts) {
    if (failed) return true;
    cur_evts[depth + 1] = evts;
    if (in_loop == 1 && depth == 0) consume_stop_edge();      /* a handler run by the final flush of m_ctx_loop() */
    int mi = lidx_of_mod(self);
    char top[1200], sig[160];
    evdesc[0] = 0;
    if (evts) m_queue_iterate(evts, evdesc_cb, NULL);
    snprintf(top, sizeof top, "cb:%s:%s:%s", mi >= 0 ? LN[mi] : "?", kind, evdesc[0] ? evdesc : "_");
    depth++;
    /* the spec state reached by the cursor must have exactly this callback on top of its control stack */
    gw_state *st = &gw_states[cur_state];
    const char *exptop = strrchr(st->proj, '|');
    if (!exptop || strcmp(exptop + 1, top)) {
        snprintf(sig, sizeof sig, "core-callback-%s-%s", kind, exptop && !strncmp(exptop + 1, "cb:", 3) ? "other-expected" : "unexpected");
        fail(sig, "library entered callback %s but the spec expects top frame '%s' (state %s)", top, exptop ? exptop + 1 : "?", st->proj);
    }
    compare(top, 0);
    bool v = true;
    while (!failed) {
        if (cursor >= PN) { fail("core-program-ended-in-callback", "program ended inside a callback"); break; }
        gw_edge *e = &gw_edges[P[cursor]];
        if (!strcmp(e->act, "CbReturn")) { cursor++; arm_joins(e->src, e->dst, e->act); cur_state = e->dst; v = e->args[0] != 0; errno = errno_to_leave; break; }
        exec_action(e);
    }
    depth--;
    return v;
}
static bool cb_eval(m_mod_t *self) { return enter_cb(self, "eval", NULL); }
static bool cb_start(m_mod_t *self) { return enter_cb(self, "start", NULL); }
static void cb_stop(m_mod_t *self) { enter_cb(self, "stop", NULL); }
static void cb_evt(m_mod_t *self, const m_queue_t *const evts) { enter_cb(self, "evt0", evts); }
static void cb_evt1(m_mod_t *self, const m_queue_t *const evts) { enter_cb(self, "evt1", evts); }
static void cb_evt2(m_mod_t *self, const m_queue_t *const evts) { enter_cb(self, "evt2", evts); }
static VP_TLS int nth_idx; static VP_TLS m_evt_t *nth_evt;
static int nth_cb(void *up, void *data) { if (--nth_idx == 0) { nth_evt = data; return 1; } return 0; }

/* ---- C14: module operations attempted from a thread that does not own the module's context ---- */
typedef struct { const char *op; m_mod_t *mod; int own; long ret; } foreign_t;
static void f_evt(m_mod_t *self, const m_queue_t *const e) {}
static void *foreign_thread(void *arg) {
    foreign_t *f = arg;
    m_mod_t *mine = NULL, *mod = f->mod;
    static int dummy;
    /* the foreign context holds a namesake of the target module (a name is only unique within a context) */
    if (f->own) { m_mod_hook_t hk = {.on_evt = f_evt}; m_ctx_register("foreign", M_CTX_PERSIST, NULL); m_mod_register(m_mod_name(mod), &mine, &hk, 0, NULL); m_mod_start(mine); }
    const char *op = f->op;
    long r = -9999;
    if (!strcmp(op, "start")) r = m_mod_start(mod);
    else if (!strcmp(op, "pause")) r = m_mod_pause(mod);
    else if (!strcmp(op, "resume")) r = m_mod_resume(mod);
    else if (!strcmp(op, "stop")) r = m_mod_stop(mod);
    else if (!strcmp(op, "deregister")) { m_mod_t *tmp = mod; r = m_mod_deregister(&tmp); }
    else if (!strcmp(op, "subscribe")) r = m_mod_ps_subscribe(mod, "t1", 0, NULL);
    else if (!strcmp(op, "unsubscribe")) r = m_mod_ps_unsubscribe(mod, "t1");
    else if (!strcmp(op, "tell")) r = m_mod_ps_tell(mod, mod, &dummy, 0);
    else if (!strcmp(op, "publish")) r = m_mod_ps_publish(mod, "t1", &dummy, 0);
    else if (!strcmp(op, "pill")) r = m_mod_ps_poisonpill(mod, mod);
    else if (!strcmp(op, "become")) r = m_mod_become(mod, f_evt);
    else if (!strcmp(op, "unbecome")) r = m_mod_unbecome(mod);
    else if (!strcmp(op, "unstash")) r = m_mod_unstash(mod, 1);
    else if (!strcmp(op, "batchsize")) r = m_mod_set_batch_size(mod, 2);
    else if (!strcmp(op, "batchtimeout")) r = m_mod_set_batch_timeout(mod, 1000000);
    else if (!strcmp(op, "tokenbucket")) r = m_mod_set_tokenbucket(mod, 1, 1);
    else if (!strcmp(op, "fdreg")) r = m_mod_src_register_fd(mod, 0, 0, NULL);
    else if (!strcmp(op, "fddereg")) r = m_mod_src_deregister_fd(mod, 0);
    else if (!strcmp(op, "srclen")) r = m_mod_src_len(mod, M_SRC_TYPE_END);
    else if (!strcmp(op, "stats")) { m_mod_stats_t st; r = m_mod_stats(mod, &st); }
    else if (!strcmp(op, "dump")) r = m_mod_dump(mod);
    else if (!strcmp(op, "log")) r = m_mod_log(mod, "x");
    else if (!strcmp(op, "bind")) r = mine ? m_mod_bind(mine, mod) : m_mod_bind(mod, mod);
    else if (!strcmp(op, "tellforeign")) r = mine ? m_mod_ps_tell(mine, mod, &dummy, 0) : -9998;   /* my module addresses a module of another context */
    f->ret = r;
    if (f->own) { m_mod_deregister(&mine); m_ctx_deregister(); }
    return NULL;
}
static long foreign_call(const char *op, m_mod_t *mod, int own) {
    foreign_t f = {op, mod, own, 0};
    pthread_t th;
    int save = in_program;
    pthread_create(&th, NULL, foreign_thread, &f);
    pthread_join(th, NULL);
    in_program = save;
    return f.ret == -EPERM || f.ret == -EACCES ? -13 : f.ret;
}

/* ---- user actions ---- */
static int lidx(const char *ln) { for (int i = 0; i < nmods; i++) if (!strcmp(LN[i], ln)) return i; return -1; }
static int norm(long r, int keep_eexist) { if (r >= 0) return (int)r; if (keep_eexist == 3) return r == -13 ? -13 : -1; if (keep_eexist && r == -EEXIST) return -17; if (r == -EAGAIN) return -11; return -1; }
/* a send is prepared with a fresh payload; it replaces the id's previous payload only if the library accepted the call */
static VP_TLS struct { void *ptr; int watch; int autofree; int live; } NEWPAY; static VP_TLS int newpay_id;
static void *new_payload(int p, int autofree) {
    NEWPAY.ptr = vp_user_alloc(16);
    NEWPAY.watch = vp_watch(NEWPAY.ptr);
    NEWPAY.autofree = autofree; NEWPAY.live = 1;
    newpay_id = p;
    return NEWPAY.ptr;
}
static void settle_payload(long r) {
    if (!newpay_id) return;
    int p = newpay_id; newpay_id = 0;
    if (r < 0) { vp_free(NEWPAY.ptr); return; }                       /* refused: never handed over */
    if (PAY[p].ptr && !(PAY[p].autofree && vp_watch_freed[PAY[p].watch])) vp_free(PAY[p].ptr);   /* recycle the id: the program's own old payload */
    memcpy(&PAY[p], &NEWPAY, sizeof NEWPAY);
}
static const char *real_topic(const char *t, char *buf, size_t n) {
    if (!strcmp(t, "MOD_ST.")) return "LIBMODULE_MOD_ST";             /* a regular expression matching both module notifications */
    if (!strcmp(t, "CTX_STARTED") || !strcmp(t, "CTX_STOPPED") || !strcmp(t, "MOD_STARTED") || !strcmp(t, "MOD_STOPPED") || !strcmp(t, "CTX_TICK")) { snprintf(buf, n, "LIBMODULE_%s", t); return buf; }
    return t;
}
/* VP_FLAGS="A:RP/-,B:CUS": flag sets a registration under that name may choose from (ModRegister(m, i) uses the i-th) */
static m_mod_flags mflags_i(int i, int which) {
    m_mod_flags f = 0;
    const char *c = flags[i];
    for (int k = 1; k < which && *c; c++) if (*c == '/') k++;
    for (; *c && *c != '/'; c++) f |= *c == 'R' ? M_MOD_ALLOW_REPLACE : *c == 'P' ? M_MOD_PERSIST : *c == 'C' ? M_MOD_DENY_CTX : *c == 'U' ? M_MOD_DENY_PUB : *c == 'S' ? M_MOD_DENY_SUB : 0;
    return f;
}
static m_mod_flags mflags(int i) { return mflags_i(i, 1); }

static int is_env_action(const char *a) { return !strcmp(a, "RefMod") || !strcmp(a, "DropRef") || !strcmp(a, "RetainEvt") || !strcmp(a, "ReleaseEvt") || !strcmp(a, "FdHup") || !strcmp(a, "TbTick") || !strcmp(a, "BtFire") || !strcmp(a, "TickFire") || !strcmp(a, "FdReady") || !strcmp(a, "FdDrain") || !strcmp(a, "FdReopen") || !strcmp(a, "TmrFire") || !strcmp(a, "SetErrno") || !strcmp(a, "SgnRaise") || !strcmp(a, "PathTouch") || !strcmp(a, "PidExit") || !strcmp(a, "TaskFinish"); }
static void exec_action(gw_edge *e) {
    const char *a = e->act;
    char tb[64];
    cursor++;
    arm_joins(e->src, e->dst, a);
    cur_state = e->dst;
    int my_depth = depth;
    long r = 0;
    int keep = 0;
    int m = e->nargs > 0 ? lidx(e->sargs[0]) : -1;
    if (!strcmp(a, "CtxRegister")) { r = m_ctx_register("vctx", ctx_persist ? M_CTX_PERSIST : 0, NULL); keep = 1; }
    else if (!strcmp(a, "CtxDeregister")) r = m_ctx_deregister();
    else if (!strcmp(a, "CtxFinalize")) r = m_ctx_finalize();
    else if (!strcmp(a, "CtxQuit")) r = m_ctx_quit((uint8_t)e->args[0]);
    else if (!strcmp(a, "Dispatch") && loop_mode && prog_loopable && depth == 0 && !in_loop && !strncmp(gw_states[e->src].proj, "ctx:idle", 8)) {
        /* loop mode: this dispatch starts the loop -> one blocking m_ctx_loop() call covers everything up to the stopping dispatch */
        cursor--;                                  /* loop_call consumes the edge itself */
        r = loop_call(e);
        if (failed) return;
        last_ret = norm(r, 0);
        const char *top2 = strrchr(gw_states[cur_state].proj, '|');
        compare(top2 ? top2 + 1 : "-", 1);
        return;
    }
    else if (!strcmp(a, "Dispatch")) {
        parse_batch(e->sargs[0]);
        batch_armed = 1;
        int pc0 = poll_calls;
        ready_seen[0] = 0;
        r = m_ctx_dispatch();
        batch_armed = 0;
        if (!failed && poll_calls != pc0) {
            /* the poll was really consulted: its ready set must be the spec's Ready() of the source state (second part of obs) */
            const char *exp = strchr(gw_states[e->src].obs, ';');
            exp = exp ? exp + 1 : "";
            if (strcmp(exp, ready_seen)) { char sig[160]; fail(canon_sig(sig, sizeof sig, "ready-set"), "sources reported ready by the real poll: {%s}, spec: {%s}", ready_seen, exp); return; }
        }
    }
    else if (!strcmp(a, "DispatchIntr")) { intr_armed = 1; r = m_ctx_dispatch(); intr_armed = 0; }
    else if (!strcmp(a, "ModRegister")) {
        m_mod_hook_t hk = {0};
        hk.on_evt = cb_evt;
        if (strchr(hooks[m], 'e')) hk.on_eval = cb_eval;
        if (strchr(hooks[m], 's')) hk.on_start = cb_start;
        if (strchr(hooks[m], 'x')) hk.on_stop = cb_stop;
        m_mod_t *old = H[m], *nw = NULL;
        r = m_mod_register(RN[m], &nw, &hk, mflags_i(m, (int)e->args[1]), NULL);
        if (r == 0) { H[m] = nw; for (; old && hcnt[m] > 0; hcnt[m]--) m_mem_unref(old); hcnt[m] = 1; }   /* replaced: the program drops its references to the old module */
        keep = 1;
    }
    else if (!strcmp(a, "ModDeregister")) {
        m_mod_t *tmp = H[m];
        r = m_mod_deregister(&tmp);
        if (!tmp && H[m]) { if (--hcnt[m] == 0) H[m] = NULL; }     /* the library consumed one of our references */
    }
    else if (!strcmp(a, "ForeignCall")) { r = foreign_call(e->sargs[0], H[lidx(e->sargs[1])], (int)e->args[2]); keep = 3; }
    else if (!strcmp(a, "ForeignTell")) { r = foreign_call("tellforeign", H[m], 1); keep = 3; }
    else if (!strcmp(a, "RefMod")) { m_mem_ref(H[m]); hcnt[m]++; r = 0; }
    else if (!strcmp(a, "RetainEvt")) {
        nth_idx = (int)e->args[0]; nth_evt = NULL;
        if (cur_evts[depth]) m_queue_iterate(cur_evts[depth], nth_cb, NULL);
        if (nth_evt && nheld < 8) HELD[nheld++] = m_mem_ref(nth_evt);
        r = nth_evt ? 0 : -1;
    }
    else if (!strcmp(a, "ReleaseEvt")) {
        int j = (int)e->args[0] - 1;
        r = -1;
        if (j >= 0 && j < nheld) { m_mem_unref(HELD[j]); for (int q = j; q + 1 < nheld; q++) HELD[q] = HELD[q + 1]; nheld--; r = 0; }
    }
    else if (!strcmp(a, "ModStart")) r = m_mod_start(H[m]);
    else if (!strcmp(a, "ModPause")) r = m_mod_pause(H[m]);
    else if (!strcmp(a, "ModResume")) r = m_mod_resume(H[m]);
    else if (!strcmp(a, "ModStop")) r = m_mod_stop(H[m]);
    else if (!strcmp(a, "DropRef")) { m_mem_unref(H[m]); if (--hcnt[m] == 0) H[m] = NULL; r = 0; }
    else if (!strcmp(a, "Tell")) { int to = lidx(e->sargs[1]); int p = (int)e->args[2], au = (int)e->args[3]; r = m_mod_ps_tell(H[m], H[to], new_payload(p, au), au ? M_PS_AUTOFREE : 0); }
    else if (!strcmp(a, "Publish")) { int p = (int)e->args[2], au = (int)e->args[3]; r = m_mod_ps_publish(H[m], real_topic(e->sargs[1], tb, sizeof tb), new_payload(p, au), au ? M_PS_AUTOFREE : 0); }
    else if (!strcmp(a, "PublishSys")) { static int dummy; r = m_mod_ps_publish(H[m], "LIBMODULE_ANYTHING", &dummy, 0); }
    else if (!strcmp(a, "Broadcast")) { int p = (int)e->args[1], au = (int)e->args[2]; r = m_mod_ps_publish(H[m], NULL, new_payload(p, au), au ? M_PS_AUTOFREE : 0); }
    else if (!strcmp(a, "Pill")) r = m_mod_ps_poisonpill(H[m], H[lidx(e->sargs[1])]);
    else if (!strcmp(a, "Subscribe")) {
        /* userdata of the subscription = its pattern (a static string), so that the handler can tell which subscription matched */
        static const char *tags[] = {"t1", "t2", "t.", "MOD_ST.", "CTX_STARTED", "CTX_STOPPED", "MOD_STARTED", "MOD_STOPPED", "CTX_TICK"};
        /* a second userdata pointer per pattern (UdVals): another object, shown as <pattern>' by the handlers */
        static const char *tags1[] = {"t1'", "t2'", "t.'", "MOD_ST.'", "CTX_STARTED'", "CTX_STOPPED'", "MOD_STARTED'", "MOD_STOPPED'", "CTX_TICK'"};
        const char *tag = NULL;
        for (unsigned i = 0; i < sizeof tags / sizeof *tags; i++) if (!strcmp(tags[i], e->sargs[1])) tag = (e->nargs > 4 && e->args[4]) ? tags1[i] : tags[i];
        m_src_flags pf = e->sargs[2][0] == 'L' ? M_SRC_PRIO_LOW : e->sargs[2][0] == 'H' ? M_SRC_PRIO_HIGH : M_SRC_PRIO_NORM;
        if (e->nargs > 3 && e->args[3]) pf |= M_SRC_ONESHOT;
        /* M_SRC_DUP: the library keeps its own copy of the topic; ours is scribbled over and released right after the call */
        char *scratch = strdup(real_topic(e->sargs[1], tb, sizeof tb));
        r = m_mod_ps_subscribe(H[m], scratch, M_SRC_DUP | pf, tag);
        memset(scratch, '#', strlen(scratch));
        free(scratch);
    }
    else if (!strcmp(a, "SrcRegister") || !strcmp(a, "SrcDeregister")) {
        int reg = a[3] == 'R';
        const char *kd = e->sargs[1];
        int key = (int)e->args[2];
        m_src_flags fl = 0;
        if (reg && e->nargs > 3) { if (strstr(e->sargs[3], "os|->TRUE") || strstr(e->sargs[3], "os=1")) fl |= M_SRC_ONESHOT; if (strstr(e->sargs[3], "ac=1")) fl |= M_SRC_FD_AUTOCLOSE; if (strstr(e->sargs[3], "pr=L")) fl |= M_SRC_PRIO_LOW; if (strstr(e->sargs[3], "pr=H")) fl |= M_SRC_PRIO_HIGH; }
        static const char *kud[] = {"", "1", "2", "3"};           /* userdata = the key */
        const void *ud = kud[key];
        if (!strcmp(kd, "fd")) r = reg ? m_mod_src_register_fd(H[m], ufd_r[key], fl, ud) : m_mod_src_deregister_fd(H[m], ufd_r[key]);
        else if (!strcmp(kd, "tmr")) { m_src_tmr_t t = {CLOCK_MONOTONIC, TMR_NS[key]}; r = reg ? m_mod_src_register_tmr(H[m], &t, fl, ud) : m_mod_src_deregister_tmr(H[m], &t); }
        else if (!strcmp(kd, "sgn")) { m_src_sgn_t g = {(unsigned)SIGS[key]}; r = reg ? m_mod_src_register_sgn(H[m], &g, fl, ud) : m_mod_src_deregister_sgn(H[m], &g); }
        else if (!strcmp(kd, "path")) {
            /* the path is the key: the event mask varies from call to call (and is left empty on deregistration) and must not matter */
            static VP_TLS unsigned path_calls;
            m_src_path_t pt = {PATHS[key], reg ? (IN_CREATE | (path_calls++ % 2 ? IN_DELETE : 0)) : 0};
            r = reg ? m_mod_src_register_path(H[m], &pt, fl, ud) : m_mod_src_deregister_path(H[m], &pt); }
        else if (!strcmp(kd, "pid")) { m_src_pid_t pd = {bad_keys[key] ? 0x3ffffff0 : kid_of(key), 0};    /* (bad key: a pid beyond pid_max, no such process) */ r = reg ? m_mod_src_register_pid(H[m], &pd, fl, ud) : m_mod_src_deregister_pid(H[m], &pd); }
        else if (!strcmp(kd, "task")) {
            task_slot *t = &TK[m][key];
            m_src_task_t tk = {key, task_fn};
            r = reg ? m_mod_src_register_task(H[m], &tk, fl, t) : m_mod_src_deregister_task(H[m], &tk);
        }
        else if (!strcmp(kd, "thr")) { m_src_thresh_t th = {key == 1 ? 1000000000ULL : 2ULL, key == 1 ? 2.0 : 1000000000.0}; r = reg ? m_mod_src_register_thresh(H[m], &th, fl, ud) : m_mod_src_deregister_thresh(H[m], &th); }
        else { fail("core-unknown-kind", "driver does not know source kind %s", kd); return; }
        keep = 1;
    }
    else if (!strcmp(a, "FdReady")) { char x = 'x'; r = __real_write(ufd_w[e->args[0]], &x, 1) == 1 ? 0 : -1; }
    else if (!strcmp(a, "FdHup")) { char x = 'x'; __real_write(ufd_w[e->args[0]], &x, 1); __real_close(ufd_w[e->args[0]]); ufd_w[e->args[0]] = -1; r = 0; }
    else if (!strcmp(a, "FdDrain")) { char buf[64]; while (read(ufd_r[e->args[0]], buf, sizeof buf) > 0); r = 0; }
    else if (!strcmp(a, "FdReopen")) { if (ufd_w[e->args[0]] >= 0) __real_close(ufd_w[e->args[0]]); ufd_open((int)e->args[0]); r = 0; }
    else if (!strcmp(a, "SgnRaise")) { r = kill(getpid(), SIGS[e->args[0]]); }
    else if (!strcmp(a, "PathTouch")) {
        /* a file "x" is created in the watched directory: every watch on it that asked for IN_CREATE gets a record */
        struct { struct inotify_event ev; char name[16]; } rec;
        memset(&rec, 0, sizeof rec);
        rec.ev.wd = 1; rec.ev.mask = IN_CREATE; rec.ev.len = sizeof rec.name; rec.name[0] = 'x';
        r = 0;
        for (int fd = 0; fd < MAXFD; fd++)
            if (vino[fd].w > 0 && !strcmp(vino[fd].path, PATHS[e->args[0]]) && (vino[fd].mask & IN_CREATE)) __real_write(vino[fd].w, &rec, sizeof rec);
    }
    else if (!strcmp(a, "PidExit")) { kid_exit((int)e->args[0]); r = 0; }
    else if (!strcmp(a, "TaskFinish")) {
        int key = (int)e->args[1];
        if (task_running(m, key) < 1) { fail("core-TaskFinish-not-running", "the spec's task %s%d is running but no thread is inside its function", LN[m], key); return; }
        TK[m][key].released++;
        sem_post(&TK[m][key].gate);
        if (wait_notified() != 0) { fail("core-task-no-notification", "task %s%d: its function returned but the loop was not notified within 5 s", LN[m], key); return; }
        r = 0;
    }
    else if (!strcmp(a, "TmrFire")) {
        /* find the (virtual) timer descriptor of that source and make it expire */
        int key = (int)e->args[1];
        r = -1;
        m_itr_foreach(H[m]->srcs[M_SRC_TYPE_TMR], {
            ev_src_t *src = m_itr_get(m_itr);
            if (!(src->flags & (1 << 7)) && src->tmr_src.its.ns == TMR_NS[key] && r != 0) { uint64_t one = 1; r = __real_write(src->tmr_src.f.fd, &one, 8) == 8 ? 0 : -1; }
        });
    }
    else if (!strcmp(a, "SetTokenBucket")) {
        /* arg "[rate;burst]": rate id 1 -> 65536 per second (does not fit 16 bits), 2 -> 1000 per second (period = user timer 1) */
        int rate = 0, burst = 0;
        sscanf(e->sargs[1], "[%d;%d]", &rate, &burst);
        r = m_mod_set_tokenbucket(H[m], rate == 0 ? 0 : rate == 1 ? 65536 : 1000, (uint64_t)burst);
        if (r == -EAGAIN) { keep = 2; }
    }
    else if (!strcmp(a, "SetBatchTimeout")) r = m_mod_set_batch_timeout(H[m], e->args[1] ? bt_ns : 0);
    else if (!strcmp(a, "CtxSetTick")) r = m_ctx_set_tick(e->args[0] ? TMR_NS[e->args[0]] : 0);
    else if (!strcmp(a, "TbTick") || !strcmp(a, "BtFire")) {
        void *want = a[0] == 'T' ? (void *)&H[m]->tb : (void *)&H[m]->batch;
        r = -1;
        m_itr_foreach(H[m]->srcs[M_SRC_TYPE_TMR], {
            ev_src_t *src = m_itr_get(m_itr);
            if ((src->flags & SRC_INTERNAL) && src->userptr == want && r != 0) { uint64_t one = 1; r = __real_write(src->tmr_src.f.fd, &one, 8) == 8 ? 0 : -1; }
        });
    }
    else if (!strcmp(a, "TickFire")) { m_ctx_t *cc = m_ctx(); uint64_t one = 1; r = cc && cc->tick.src && __real_write(cc->tick.src->tmr_src.f.fd, &one, 8) == 8 ? 0 : -1; }
    else if (!strcmp(a, "SetErrno")) { errno_to_leave = (int)e->args[0]; r = 0; }
    else if (!strcmp(a, "SetBatchSize")) r = m_mod_set_batch_size(H[m], (size_t)e->args[1]);
    else if (!strcmp(a, "Stash")) {
        nth_idx = (int)e->args[1]; nth_evt = NULL;
        if (cur_evts[depth]) m_queue_iterate(cur_evts[depth], nth_cb, NULL);
        r = m_mod_stash(H[m], nth_evt);
    }
    else if (!strcmp(a, "Unstash")) r = m_mod_unstash(H[m], e->args[1] >= 9 ? (size_t)-1 : (size_t)e->args[1]);
    else if (!strcmp(a, "Become")) r = m_mod_become(H[m], e->args[1] == 1 ? cb_evt1 : cb_evt2);
    else if (!strcmp(a, "Unbecome")) r = m_mod_unbecome(H[m]);
    else if (!strcmp(a, "Unsubscribe")) r = m_mod_ps_unsubscribe(H[m], real_topic(e->sargs[1], tb, sizeof tb));
    else { fail("core-unknown-action", "driver does not know action %s", a); return; }
    if (failed) return;
    settle_payload(r);
    last_ret = norm(r, keep);
    if (gw_verbose) { char lab[256]; gw_fmt_edge(lab, sizeof lab, (int)(e - gw_edges)); fprintf(stderr, "  [d%d] %s -> ret %d ; spec: %s\n", my_depth, lab, last_ret, gw_states[cur_state].proj); }
    /* the API call returned: the spec must be back at the same callback depth, with the same frame on top */
    gw_state *st = &gw_states[cur_state];
    char want[16]; snprintf(want, sizeof want, "|d%d|", my_depth);
    if (!strstr(st->proj, want)) {
        char sig[160];
        fail(canon_sig(sig, sizeof sig, "callback-missing"), "API call returned (ret %d) at callback depth %d but the spec is at %s: an expected callback did not happen", last_ret, my_depth, st->proj);
        return;
    }
    const char *top = strrchr(st->proj, '|');
    compare(top ? top + 1 : "-", !is_env_action(a));
    errno = errno_to_leave;          /* what user code leaves behind in errno must not matter to the library */
}

static void parse_batch(const char *arg) {
    /* the batch: "[[A;ps;0];[B;fd;1]]" = A's mailbox, then descriptor source 1 of B */
        nbatch = 0;
        for (const char *c = arg; *c && nbatch < 8; c++)
            if (*c == '[' && c[1] != '[' && c[1] != ']') {
                /* "[A;ps;0]" or "[;tick;0]" */
                char nm[8] = {0}, kd[8] = {0};
                int key = 0;
                const char *q = c + 1;
                size_t a = 0;
                while (*q && *q != ';' && a < 7) nm[a++] = *q++;
                if (*q == ';') q++;
                a = 0;
                while (*q && *q != ';' && a < 7) kd[a++] = *q++;
                if (*q == ';') key = atoi(q + 1);
                batch[nbatch].m = nm[0] ? lidx(nm) : -1;
                snprintf(batch[nbatch].kind, sizeof batch[nbatch].kind, "%s", kd);
                batch[nbatch].key = key;
                nbatch++;
                c = strchr(c, ']');
                if (!c) break;
            }
}

static void exec_action(gw_edge *e);
static void compare(const char *topdesc, int check_ret);
/* returns 1 when a batch was prescribed (to be delivered), 0 when the loop must just be woken up (stop pending) */
static int loop_poll(int epfd, struct epoll_event *events, int maxevents) {
    char sig[160];
    if (failed) return 0;
    compare("-", 0);                             /* state after the previous batch / step */
    if (failed) return 0;
    if (spec_stop_pending(cur_state)) { fail("core-loop-polls-instead-of-stopping", "m_ctx_loop() polls again although a quit was requested / no module is running (state %s)", gw_states[cur_state].proj); return 0; }
    while (cursor < PN && !failed) {
        gw_edge *e = &gw_edges[P[cursor]];
        if (!strcmp(e->act, "CbReturn")) { fail("core-cbreturn-at-top", "spec returns from a callback the library never entered"); return 0; }
        if (!strcmp(e->act, "DispatchIntr")) { cursor++; cur_state = e->dst; return 2; }
        if (!strcmp(e->act, "Dispatch")) {
            /* looping, no stop pending: this dispatch delivers a batch */
            cursor++; arm_joins(e->src, e->dst, e->act); cur_state = e->dst;
            parse_batch(e->sargs[0]);
            loop_expect_ready = strchr(gw_states[e->src].obs, ';');
            return 1;
        }
        exec_action(e);
        if (failed) return 0;
        if (spec_stop_pending(cur_state)) { consume_stop_edge(); return 0; }     /* wake the loop up: it must notice and stop */
    }
    (void)sig;
    fail("core-program-ended-in-loop", "program ended while m_ctx_loop() is blocked");
    return 0;
}
/* a Dispatch step taken at the top level while the context is idle, in loop mode: the whole loop run */
static long loop_call(gw_edge *start) {
    cursor++; arm_joins(start->src, start->dst, start->act); cur_state = start->dst;            /* loop_start(): its callbacks (eval / start) consume the following steps */
    in_loop = 1;
    batch_armed = 0;
    long r = m_ctx_loop();
    if (failed) return r;
    if (in_loop == 1) consume_stop_edge();       /* stopped right after a batch, without polling again and without flush callbacks */
    if (in_loop != 2) { in_loop = 0; fail("core-loop-returned-early", "m_ctx_loop() returned %ld although the spec expects the loop to go on (state %s)", r, gw_states[cur_state].proj); return r; }
    in_loop = 0;
    return r;
}

/* ---- one program ---- */
static int gw_is_observer(const gw_edge *e) { return 0; }
static int gw_is_nontrivial(const int *prog, int n) {
    /* at least one public call made from inside a callback */
    int d = 0;
    for (int i = 0; i < n; i++) {
        gw_edge *e = &gw_edges[prog[i]];
        const char *top = strrchr(gw_states[e->src].proj, '|');
        if (top && !strncmp(top + 1, "cb:", 3) && strcmp(e->act, "CbReturn")) d = 1;
    }
    return d;
}
static int is_clean(int s) { return !strncmp(gw_states[s].proj, "ctx:none", 8) && !strstr(gw_states[s].proj, ":zombie:") && !strstr(gw_states[s].proj, ":idle:") &&
                                    !strstr(gw_states[s].proj, ":running:") && !strstr(gw_states[s].proj, ":paused:") && !strstr(gw_states[s].proj, ":stopped:") && strstr(gw_states[s].proj, "|held:_|") && strstr(gw_states[s].proj, "|d0|-"); }

/* canned set-up (Core.tla InitOf): context registered, all modules registered, first dispatch (loop started) */
static const char *setup_name = "";
static void do_setup(void) {
    if (!setup_name[0]) return;
    m_ctx_register("vctx", ctx_persist ? M_CTX_PERSIST : 0, NULL);
    for (int m = 0; m < nmods; m++) {
        m_mod_hook_t hk = {0};
        hk.on_evt = cb_evt;
        if (strchr(hooks[m], 'e')) hk.on_eval = cb_eval;
        if (strchr(hooks[m], 's')) hk.on_start = cb_start;
        if (strchr(hooks[m], 'x')) hk.on_stop = cb_stop;
        m_mod_register(RN[m], &H[m], &hk, mflags(m), NULL);
        hcnt[m] = 1;
    }
    batch_armed = 0;
    if (!(loop_mode && prog_loopable)) m_ctx_dispatch();
}

/* payloads are the program's: it releases those the library did not (or must not) release */
static void free_payloads(void) {
    for (int p = 1; p <= NP; p++) if (PAY[p].ptr && !(PAY[p].autofree && vp_watch_freed[PAY[p].watch])) { vp_free(PAY[p].ptr); PAY[p].ptr = NULL; }
}
static int threaded;
static VP_TLS int lsan_ctr; static VP_TLS const int *lsan_last_prog; static VP_TLS int lsan_last_n;
static void final_lsan(void) {
#if defined(__has_feature)
#if __has_feature(address_sanitizer)
    extern int __lsan_do_recoverable_leak_check(void);
    if (!threaded && lsan_last_prog && lsan_ctr % 1024 != 1 && __lsan_do_recoverable_leak_check()) {
        gw_mismatch(lsan_last_prog, lsan_last_n, lsan_last_n - 1, "core-lsan-leak", "LeakSanitizer: memory allocated during one of the last %d programs (all ended with the context released and every reference dropped) is unreachable; allocation stack in the driver output", (lsan_ctr - 1) % 1024);
        if (gw_forked) gw_resume_exit();
    }
#endif
#endif
}
static void close_user_fds(void) {
    for (int k2 = 1; k2 <= NKEY; k2++) { if (ufd_r[k2] >= 0) __real_close(ufd_r[k2]); if (ufd_w[k2] >= 0) __real_close(ufd_w[k2]); ufd_r[k2] = ufd_w[k2] = -1; }
}
static void on_alarm(int sig) {
    if (threaded) {      /* (several replaying threads: the signal may run on any of them) */
        static const char m[] = "MISMATCH sig=core-hang replay=- :: a program of the threaded replay did not finish within 60 s (blocked or looping)\n";
        if (write(1, m, sizeof m - 1) < 0) {}
        _exit(1);
    }
    failed = 0; fail("core-hang", "program did not finish within its time limit (blocked or looping)");
}

static int gw_run(const int *prog, int n) {
    P = prog; PN = n; cursor = 0; depth = 0; failed = 0; last_ret = 0; double_close = 0;
    long base = vp_outstanding + __atomic_load_n(&vp_foreign_outstanding, __ATOMIC_SEQ_CST);
    memset(H, 0, sizeof H); memset(PAY, 0, sizeof PAY); memset(hcnt, 0, sizeof hcnt); nheld = 0;
    vp_watch_reset();
    memset(fd_lib, 0, sizeof fd_lib);
    for (int fd = 0; fd < MAXFD; fd++) if (vino[fd].w > 0) { __real_close(vino[fd].w); vino[fd].w = 0; }
    errno_to_leave = 0;
    signals_drain();
    task_release_on_join = 0; task_joined = 0;
    if (task_mode) __atomic_store_n(&task_free_run, 0, __ATOMIC_SEQ_CST);      /* (a global: only the task configurations - one replaying thread - use it) */
    if (task_mode) { while (sem_trywait(&task_notified) == 0); for (int i = 0; i < NM; i++) for (int k2 = 0; k2 < NTK; k2++) { TK[i][k2].entered = TK[i][k2].exited = TK[i][k2].released = 0; while (sem_trywait(&TK[i][k2].gate) == 0); } }
    for (int k2 = 1; k2 <= NKEY; k2++) { ufd_r[k2] = ufd_w[k2] = -1; if (k2 <= nkeys) ufd_open(k2); }
    cur_state = gw_edges[prog[0]].src;
    in_program = 1;
    alarm(threaded ? 60 : task_mode ? 8 : 20);
    prog_loopable = loop_mode && program_loopable(prog, n);
    in_loop = 0;
    if (setup_name[0]) {
        failed = 1;          /* callbacks during the set-up are not part of the program */
        do_setup();
        failed = 0;
        if (loop_mode && prog_loopable) {
            /* the set-up's first dispatch becomes the blocking call: everything up to the stopping dispatch runs inside it */
            in_loop = 1; batch_armed = 0;
            long r = m_ctx_loop();
            if (!failed && in_loop == 1) consume_stop_edge();
            if (!failed && in_loop != 2) fail("core-loop-returned-early", "m_ctx_loop() returned %ld although the spec expects the loop to go on (state %s)", r, gw_states[cur_state].proj);
            in_loop = 0;
            if (!failed) { last_ret = norm(r, 0); const char *t2 = strrchr(gw_states[cur_state].proj, '|'); compare(t2 ? t2 + 1 : "-", 1); }
        } else compare("-", 0);     /* the set-up must have produced the configuration's initial state */
    }
    while (cursor < PN && !failed) {
        gw_cur_step = cursor;
        gw_edge *e = &gw_edges[P[cursor]];
        if (!strcmp(e->act, "CbReturn")) { fail("core-cbreturn-at-top", "spec returns from a callback the library never entered"); break; }
        exec_action(e);
    }
    if (!threaded) alarm(0);      /* (threaded replay: the watchdog stays armed; it is re-armed by every program start) */
    if (task_mode && !failed) task_settle("");
    in_program = 0;
    kids_reap();
    int was_failed = failed;
    if (failed) close_user_fds();
    if (was_failed) return 1;
    /* programs end in a clean state: context released, no references held: nothing may be left */
    if (is_clean(cur_state)) free_payloads();
    if (is_clean(cur_state)) {
        long now_out = vp_outstanding + __atomic_load_n(&vp_foreign_outstanding, __ATOMIC_SEQ_CST);
        if (now_out != base) { gw_mismatch(prog, n, n - 1, "core-leak", "allocator ledger: %ld blocks outstanding in a clean state (context released, all references dropped)", now_out - base); vp_outstanding -= now_out - base; if (gw_forked) gw_resume_exit(); return 1; }
        if (lib_fds_open()) { gw_mismatch(prog, n, n - 1, "core-fd-leak", "%d descriptors opened by the library are still open in a clean state", lib_fds_open()); if (gw_forked) gw_resume_exit(); return 1; }
    } else {
        /* not clean (only when no completion exists): release what we can; callbacks made meanwhile are not part of the program */
        failed = 1;
        in_program = 1;               /* (the descriptor ledger follows the teardown) */
        if (task_mode) task_release_all();
        if (m_ctx_name() && m_ctx() && m_ctx()->state == M_CTX_LOOPING) { m_ctx_quit(0); batch_armed = 0; nbatch = 0; m_ctx_dispatch(); }     /* a looping context refuses to go */
        /* every reference the program holds is dropped exactly once (a successful deregistration consumes one of them) */
        for (int i = 0; i < nmods; i++) if (H[i]) {
            m_mod_t *h = H[i], *tmp = h;
            if (m_ctx_name() && m_mod_state(h) != M_MOD_ZOMBIE && m_mod_deregister(&tmp) == 0 && !tmp) hcnt[i]--;
            for (; hcnt[i] > 0; hcnt[i]--) m_mem_unref(h);
            H[i] = NULL;
        }
        if (m_ctx_name()) m_ctx_deregister();
        for (int q = 0; q < nheld; q++) m_mem_unref(HELD[q]);
        nheld = 0;
        if (task_mode) { struct timespec ts = {0, 2000000}; nanosleep(&ts, NULL); }        /* (let released task threads finish) */
        free_payloads();
        long left = vp_outstanding + __atomic_load_n(&vp_foreign_outstanding, __ATOMIC_SEQ_CST) - base;
        vp_outstanding = base - __atomic_load_n(&vp_foreign_outstanding, __ATOMIC_SEQ_CST);
        failed = 0;
        in_program = 0;
        /* the driver's own teardown reaches a clean state too (every module deregistered, every reference dropped, context released) */
        if (left != 0) { gw_mismatch(prog, n, n - 1, "core-leak-after-teardown", "allocator ledger: %ld blocks outstanding after the program's modules were deregistered, its references dropped and its context released", left); if (gw_forked) gw_resume_exit(); return 1; }
        if (lib_fds_open()) { gw_mismatch(prog, n, n - 1, "core-fd-leak-after-teardown", "%d descriptors opened by the library are still open after the program's modules were deregistered, its references dropped and its context released", lib_fds_open()); if (gw_forked) gw_resume_exit(); return 1; }
    }
    close_user_fds();                 /* (after the teardown: an auto-close source still registered closes its descriptor itself) */
#if defined(__has_feature)
#if __has_feature(address_sanitizer)
    /* what the library allocates behind the allocator hook (compiled regular expressions, duplicated strings) is watched by
       LeakSanitizer: every 1024 programs (each ended in a clean state or was torn down to one) and at the end of the enumeration
       everything still allocated must be reachable */
    {
        extern int __lsan_do_recoverable_leak_check(void);
        lsan_last_prog = prog; lsan_last_n = n;
        if (!threaded && ++lsan_ctr % 1024 == 1 && __lsan_do_recoverable_leak_check()) {
            gw_mismatch(prog, n, n - 1, "core-lsan-leak", "LeakSanitizer: memory allocated during one of the last 1024 programs (all ended with the context released and every reference dropped) is unreachable; allocation stack in the driver output");
            if (gw_forked) gw_resume_exit();
            return 1;
        }
    }
#endif
#endif
    if (double_close) { gw_mismatch(prog, n, n - 1, "core-bad-close", "close() failed %d times (double close / not owned)", double_close); if (gw_forked) gw_resume_exit(); return 1; }
    return 0;
}

/* ---- start-up: choose real module names so that the context visits them in the spec's Order ---- */
static int probe_order[NM], nprobe;
static bool probe_eval(m_mod_t *self) { probe_order[nprobe++] = midx(m_mod_name(self)); return false; }
static void probe_evt(m_mod_t *self, const m_queue_t *const e) {}
static void measure_order(void) {
    static const char *cand[NM] = {"mod_a", "mod_b", "mod_c", "mod_d"};
    for (int i = 0; i < nmods; i++) snprintf(RN[i], sizeof RN[i], "%s", cand[i]);
    /* VP_NAMES="db,fs": real module names chosen by the configuration (names that share a bucket of the context's module table) */
    if (getenv("VP_NAMES")) { const char *c = getenv("VP_NAMES"); for (int i = 0; i < nmods && *c; i++) { size_t k = 0; while (*c && *c != ',' && k < sizeof RN[i] - 1) RN[i][k++] = *c++; RN[i][k] = 0; if (*c == ',') c++; } }
    m_mod_hook_t hk = {.on_eval = probe_eval, .on_evt = probe_evt};
    m_mod_t *h[NM] = {0};
    m_ctx_register("probe", 0, NULL);
    for (int i = 0; i < nmods; i++) m_mod_register(RN[i], &h[i], &hk, 0, NULL);
    m_ctx_dispatch();      /* loop_start: evaluation pass visits the table */
    m_ctx_dispatch();      /* nothing running: loop_stop */
    char tmp[NM][16];
    for (int i = 0; i < nmods; i++) snprintf(tmp[i], sizeof tmp[i], "%s", RN[probe_order[i]]);
    for (int i = 0; i < nmods; i++) m_mod_deregister(&h[i]);
    if (nprobe != nmods) { fprintf(stderr, "drv_core: order probe visited %d of %d modules\n", nprobe, nmods); exit(2); }
    for (int i = 0; i < nmods; i++) snprintf(RN[i], sizeof RN[i], "%s", tmp[i]);
}

static void parse_kv(const char *env, char *dstp, size_t w) {
    const char *s = getenv(env);
    if (!s) return;
    while (*s) {
        char nm[2] = {*s, 0};
        int i = lidx(nm);
        const char *c = strchr(s, ':');
        if (!c) break;
        c++;
        size_t k = 0;
        while (*c && *c != ',') { if (i >= 0 && k < w - 1) dstp[i * w + k++] = *c; c++; }
        if (i >= 0) dstp[i * w + k] = 0;
        s = *c ? c + 1 : c;
    }
}

/* ---- C14: several threads, each with its own context, replay programs of the graph at the same time ----
 * Every thread checks its own observations against the spec exactly as in the single-threaded replay (what one context observes
 * does not depend on the others); built with TSan this run is also the observer of unsynchronised accesses to shared library state. */
typedef struct { int first, count, failed_n; } targ_t;
static void *thread_main(void *arg) {
    targ_t *t = arg;
    for (int i = t->first; i < t->first + t->count; i++) if (gw_run(gw_coll[i], gw_coll_len[i])) t->failed_n++;
    return NULL;
}
static int threads_main(int argc, char **argv) {
    if (argc < 9 || gw_load(argv[1])) return 2;
    gw_replay_dir = argv[2]; gw_tag = argv[3];
    int T = atoi(getenv("VP_THREADS"));
    uint64_t walks = strtoull(argv[6], NULL, 10);
    int L = atoi(argv[7]);
    unsigned seed = (unsigned)strtoul(argv[8], NULL, 10);
    gw_coll_cap = (int)walks; gw_coll = calloc(walks + 1, sizeof(int *)); gw_coll_len = calloc(walks + 1, sizeof(int));
    gw_walks(walks, L, seed);
    gw_coll_cap = 0;
    threaded = 1;
    pthread_t th[32]; targ_t ta[32];
    int per = gw_ncoll / T;
    for (int i = 0; i < T; i++) { ta[i].first = i * per; ta[i].count = per; ta[i].failed_n = 0; pthread_create(&th[i], NULL, thread_main, &ta[i]); }
    int bad = 0; uint64_t steps = 0;
    for (int i = 0; i < T; i++) { pthread_join(th[i], NULL); bad += ta[i].failed_n; }
    for (int i = 0; i < per * T; i++) steps += gw_coll_len[i];
    printf("STATS {\"programs\": %d, \"steps\": %llu, \"distinct\": %d, \"nontrivial\": %d, \"mismatches\": %d, \"edges\": %d, \"edges_covered\": 0, \"states\": %d, \"paths_complete\": false, \"threads\": %d}\n",
           per * T, (unsigned long long)steps, per * T, per * T, bad, gw_nedges, gw_nstates, T);
    return bad ? 1 : 0;
}

int main(int argc, char **argv) {
    const char *ms = getenv("VP_MODS") ? getenv("VP_MODS") : "A,B";
    for (const char *c = ms; *c; c++) if (*c != ',') { LN[nmods][0] = *c; LN[nmods][1] = 0; nmods++; }
    parse_kv("VP_HOOKS", &hooks[0][0], sizeof hooks[0]);
    parse_kv("VP_FLAGS", &flags[0][0], sizeof flags[0]);
    ctx_persist = getenv("VP_CTXPERSIST") && atoi(getenv("VP_CTXPERSIST"));
    if (getenv("VP_CAP")) cap = atoi(getenv("VP_CAP"));
    if (getenv("VP_MAXPAY")) maxpay = atoi(getenv("VP_MAXPAY"));
    if (getenv("VP_SETUP")) setup_name = getenv("VP_SETUP");
    if (getenv("VP_NKEYS")) nkeys = atoi(getenv("VP_NKEYS"));
    loop_mode = getenv("VP_LOOPMODE") && atoi(getenv("VP_LOOPMODE"));
    task_mode = getenv("VP_TASKS") && atoi(getenv("VP_TASKS"));
    pool_size = getenv("VP_POOLSZ") ? atoi(getenv("VP_POOLSZ")) : 0;
    if (getenv("VP_BADKEYS")) for (const char *c = getenv("VP_BADKEYS"); *c; c++) if (*c >= '0' && *c <= '9') bad_keys[*c - '0'] = 1;
    if (getenv("VP_BT_NS")) bt_ns = strtoull(getenv("VP_BT_NS"), NULL, 10);   /* batch timeout period (tbbte: equal to the refill period of rate id 1) */
    sem_init(&task_notified, 0, 0);
    for (int i = 0; i < NM; i++) for (int k = 0; k < NTK; k++) { snprintf(TK[i][k].ud, sizeof TK[i][k].ud, "%d", k); TK[i][k].m = i; TK[i][k].key = k; sem_init(&TK[i][k].gate, 0, 0); }
    { sigset_t ss; sigemptyset(&ss); for (int k = 1; k <= NKEY; k++) sigaddset(&ss, SIGS[k]); sigprocmask(SIG_BLOCK, &ss, NULL); }
    if (task_mode) { vp_owner = pthread_self(); vp_owner_set = 1; }
    paths_init();
    atexit(paths_fini);
    vp_alloc_install();
    signal(SIGALRM, on_alarm);
    {   /* the probe runs in a helper process: this one (and the replay processes forked from it) has not used the library yet when
           the first program begins (cold starts, gw_cold) */
        int pp[2];
        if (pipe(pp)) return 2;
        fflush(stdout);
        pid_t hp = fork();
        if (hp == 0) { measure_order(); ssize_t w = write(pp[1], RN, sizeof RN); _exit(w == (ssize_t)sizeof RN ? 0 : 2); }
        close(pp[1]);
        size_t got = 0; ssize_t r;
        while (got < sizeof RN && (r = read(pp[0], (char *)RN + got, sizeof RN - got)) > 0) got += (size_t)r;
        close(pp[0]);
        int st = 0; waitpid(hp, &st, 0);
        if (got != sizeof RN || !WIFEXITED(st) || WEXITSTATUS(st)) { fprintf(stderr, "drv_core: order probe failed\n"); return 2; }
    }
    gw_cold_enabled = 1;
    gw_need_terminal = 1;
    gw_target_fn = is_clean;
    gw_final_hook = final_lsan;
    if (getenv("VP_THREADS")) return threads_main(argc, argv);
    return gw_main(argc, argv);
}
