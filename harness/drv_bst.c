/* drv_bst.c - replays Bst.tla behaviours through m_bst_*.
 * env: VP_DTOR=0|1 VP_USERCMP=0|1
 * proj = inorder(ids)|len|iteratorLive|destroyed ;  with the default comparator the elements are bare
 * addresses 2^31 and 2^32 apart (never dereferenced by the library). */
#define GW_SIMPLE_RUNNER
#include "gw.h"
#include "vp_alloc.h"
#include "public/module/structs/bst.h"

#define NELEM 8
#include <sanitizer/asan_interface.h>
/* With a user comparator the elements are objects the comparator reads. An element handed to the destructor is poisoned until the
   program inserts it again: a library that still compares a destroyed element (as it would a freed one) is reported by ASan.
   Look-ups and removals by key use separate key objects K[]. */
typedef struct { int id; int pad[3]; } __attribute__((aligned(16))) elem_t;
static elem_t E[NELEM + 1], K[NELEM + 1];
static void *P[NELEM + 1];
static int dcount[NELEM + 1];
static int has_dtor, user_cmp;
static m_bst_t *T; static m_bst_itr_t *TI;

static int idof(void *p) { if (!p) return 0; for (int i = 1; i <= NELEM; i++) if (P[i] == p) return i; return 99; }
static int user_cmp_on;
static void dtor(void *p) { int i = idof(p); if (i <= NELEM) { dcount[i]++; if (user_cmp_on) ASAN_POISON_MEMORY_REGION(&E[i], sizeof E[i]); } }
static int keyof(int id) { return (id + 1) / 2; }
static int cmp(void *a, void *b) { return keyof(((elem_t *)a)->id) - keyof(((elem_t *)b)->id); }

static int vis[64], nvis, stop_at, stop_rc;
static int visit_cb(void *up, void *data) {
    vis[nvis++] = idof(data);
    if (stop_at && nvis == stop_at) return stop_rc;
    return 0;
}
static int norm(long r) { return r < 0 ? -1 : (int)r; }
static void mk(void) { T = m_bst_new(user_cmp ? cmp : NULL, has_dtor ? dtor : NULL); }

static void project(char *buf, size_t n) {
    size_t k = 0;
    stop_at = 0; nvis = 0;
    long l = m_bst_len(T);
    m_bst_traverse(T, M_BST_IN, visit_cb, NULL);
    if (nvis == 0) k += snprintf(buf + k, n - k, "_");
    for (int i = 0; i < nvis; i++) k += snprintf(buf + k, n - k, "%s%d", i ? "," : "", vis[i]);
    k += snprintf(buf + k, n - k, "|%ld|%d|", l, TI != NULL);
    int any = 0;
    for (int i = 1; i <= NELEM; i++) if (dcount[i]) { k += snprintf(buf + k, n - k, "%s%d", any ? "," : "", i); any = 1; if (dcount[i] > 1) k += snprintf(buf + k, n - k, "x%d", dcount[i]); }
    if (!any) snprintf(buf + k, n - k, "_");
}

/* post-order of the tree determined by pre-order p and in-order in (both length n); returns 0 if inconsistent */
static int post_of(const int *p, const int *in, int n, int *out, int *no) {
    if (n == 0) return 1;
    int k = -1;
    for (int j = 0; j < n; j++) if (in[j] == p[0]) { k = j; break; }
    if (k < 0) return 0;
    if (!post_of(p + 1, in, k, out, no)) return 0;
    if (!post_of(p + 1 + k, in + k + 1, n - k - 1, out, no)) return 0;
    out[(*no)++] = p[0];
    return 1;
}
static int pre_[64], in_[64], post_[64], npre, nin, npost;
static int shape_ok(void) {
    stop_at = 0;
    nvis = 0; m_bst_traverse(T, M_BST_PRE, visit_cb, NULL); npre = nvis; memcpy(pre_, vis, sizeof vis);
    nvis = 0; m_bst_traverse(T, M_BST_IN, visit_cb, NULL); nin = nvis; memcpy(in_, vis, sizeof vis);
    nvis = 0; m_bst_traverse(T, M_BST_POST, visit_cb, NULL); npost = nvis; memcpy(post_, vis, sizeof vis);
    if (npre != nin || npost != nin) return 0;
    int out[64], no = 0;
    if (!post_of(pre_, in_, nin, out, &no) || no != nin) return 0;
    return !memcmp(out, post_, sizeof(int) * nin);
}

static void apply(const gw_edge *e, char *obs, size_t n) {
    const char *a = e->act;
    long x = e->args[0];
    if (!strcmp(a, "Insert")) { if (user_cmp) ASAN_UNPOISON_MEMORY_REGION(&E[x], sizeof E[x]); snprintf(obs, n, "%d", norm(m_bst_insert(T, P[x]))); }
    else if (!strcmp(a, "Remove")) snprintf(obs, n, "%d", norm(m_bst_remove(T, user_cmp ? (void *)&K[x] : P[x])));
    else if (!strcmp(a, "Find")) snprintf(obs, n, "%d", idof(m_bst_find(T, user_cmp ? (void *)&K[x] : P[x])));
    else if (!strcmp(a, "Clear")) { m_bst_clear(T); snprintf(obs, n, "0"); }
    else if (!strcmp(a, "FreeNew")) { m_bst_free(&T); int nul = T == NULL; mk(); snprintf(obs, n, "%d", nul ? 0 : -1); }
    else if (!strcmp(a, "InOrder")) {
        stop_at = (int)e->args[0]; stop_rc = e->args[1] ? -7 : 5; nvis = 0;
        int r = m_bst_traverse(T, M_BST_IN, visit_cb, NULL);
        stop_at = 0;
        size_t k = snprintf(obs, n, "%d", norm(r));
        for (int i = 0; i < nvis; i++) k += snprintf(obs + k, n - k, ",%d", vis[i]);
    }
    else if (!strcmp(a, "Shape")) snprintf(obs, n, "%d", shape_ok());
    else if (!strcmp(a, "ItrNew")) { TI = m_bst_itr_new(T); snprintf(obs, n, "%d", TI != NULL); }
    else if (!strcmp(a, "ItrNext")) snprintf(obs, n, "%d", norm(m_bst_itr_next(&TI)));
    else if (!strcmp(a, "ItrGet")) snprintf(obs, n, "%d", idof(m_bst_itr_get_data(TI)));
    else if (!strcmp(a, "ItrRemove")) snprintf(obs, n, "%d", norm(m_bst_itr_remove(TI)));
    else if (!strcmp(a, "ItrDrop")) { memhook._free(TI); TI = NULL; snprintf(obs, n, "0"); }
    else snprintf(obs, n, "?unknown-action");
}

static int gw_is_observer(const gw_edge *e) {
    const char *a = e->act;
    return !strcmp(a, "Find") || !strcmp(a, "InOrder") || !strcmp(a, "Shape") || !strcmp(a, "ItrGet");
}
static int gw_choice_fixed(const gw_edge *e) { return -1; }
static int gw_is_nontrivial(const int *prog, int n) {
    /* a removal (direct or through the iterator) while >= 3 elements are present, followed by a further operation */
    int ins = 0;
    for (int i = 0; i < n; i++) {
        const char *a = gw_edges[prog[i]].act;
        if (!strcmp(a, "Insert")) ins++;
        if ((!strcmp(a, "Remove") || !strcmp(a, "ItrRemove")) && ins >= 3 && i + 1 < n) return 1;
    }
    return 0;
}
static long base_out;
static void gw_begin(void) { base_out = vp_outstanding; memset(dcount, 0, sizeof dcount); TI = NULL; ASAN_UNPOISON_MEMORY_REGION(E, sizeof E); mk(); }
static void gw_step(const gw_edge *e, char *obs, char *proj, size_t n) { apply(e, obs, n); project(proj, n); }
static void gw_sig(const int *prog, int i, const gw_edge *e, int ok_obs, char *sig, size_t n) {
    int ins = 0, rem = 0;
    for (int j = 0; j < i; j++) { const char *a = gw_edges[prog[j]].act; if (!strcmp(a, "Insert")) ins++; if (strstr(a, "Remove")) rem++; }
    snprintf(sig, n, "bst-%s-%s-%s", user_cmp ? "usercmp" : "ptrcmp", e->act, ok_obs ? "state" : "ret");
}
static int gw_end(char *msg, size_t n) {
    if (TI) { memhook._free(TI); TI = NULL; }
    m_bst_free(&T);
    long left = vp_outstanding - base_out;
    vp_outstanding = base_out;
    if (left) { snprintf(msg, n, "allocator ledger: %ld blocks outstanding after free", left); return 1; }
    return 0;
}

int main(int argc, char **argv) {
    has_dtor = getenv("VP_DTOR") && atoi(getenv("VP_DTOR"));
    user_cmp = getenv("VP_USERCMP") && atoi(getenv("VP_USERCMP"));
    for (int i = 0; i <= NELEM; i++) E[i].id = K[i].id = i;
    user_cmp_on = user_cmp;
    /* default comparator: addresses 2^31, 2^32 and more apart, ascending with the id */
    static const unsigned long long off[NELEM + 1] = {0, 0x10000ULL, 0x80010000ULL, 0x100010000ULL, 0x180010000ULL, 0x300010008ULL,
                                                      0x300010010ULL, 0x7000000010000ULL, 0x7000100010000ULL};
    for (int i = 1; i <= NELEM; i++) P[i] = user_cmp ? (void *)&E[i] : (void *)(uintptr_t)off[i];
    vp_alloc_install();
    return gw_main(argc, argv);
}
