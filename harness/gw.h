/* gw.h - graph walker: loads a TLC-derived graph table and enumerates programs (edge sequences)
 * for a driver-supplied executor.  Header-only; one translation unit per driver includes it.
 *
 * Table format (written by tools/vplib.py:write_table):
 *   H nstates nedges ninit
 *   I idx
 *   S idx obs proj
 *   E src dst Act nargs a1 a2 ...
 */
#ifndef VP_GW_H
#define VP_GW_H
#include <stdio.h>
#include <time.h>
#include <stdlib.h>
#include <string.h>
#include <stdint.h>
#include <stdarg.h>
#include <errno.h>
#include <unistd.h>
#include <sys/wait.h>

#ifndef VP_TLS
#define VP_TLS
#endif
#define GW_MAXARGS 8
#define GW_ARGLEN 48

typedef struct {
    int src, dst;
    char act[40];
    int nargs;
    char sargs[GW_MAXARGS][GW_ARGLEN];
    long args[GW_MAXARGS];
} gw_edge;

typedef struct {
    char *obs;
    char *proj;
    int first, nedges;
} gw_state;

static gw_state *gw_states;
static gw_edge *gw_edges;
static int gw_nstates, gw_nedges, gw_ninit;
static int *gw_inits;

/* statistics */
static uint64_t gw_programs, gw_steps, gw_distinct, gw_nontrivial, gw_mismatches, gw_edges_covered;
static unsigned char *gw_edge_seen;
static const char *gw_replay_dir = ".";
static const char *gw_tag = "gw";
static int gw_max_reports = 12;
static int gw_samples_left = 3;

/* the driver implements these */
static int gw_run(const int *prog, int n);                 /* 0 = ok, 1 = mismatch (already reported), 3 = inconclusive */
static int gw_is_nontrivial(const int *prog, int n);
static int gw_is_observer(const gw_edge *e);               /* pure query: executed at every node, never extends a path */
static int gw_obs_mode;                                    /* 1 while enumerating paths: observers run at each node */

static int gw_cmp_edge(const void *a, const void *b) {
    const gw_edge *x = a, *y = b;
    if (x->src != y->src) return x->src < y->src ? -1 : 1;
    int c = strcmp(x->act, y->act);
    if (c) return c;
    for (int i = 0; i < x->nargs && i < y->nargs; i++) {
        c = strcmp(x->sargs[i], y->sargs[i]);
        if (c) return c;
    }
    return x->dst < y->dst ? -1 : x->dst > y->dst;
}

static int gw_load(const char *path) {
    FILE *f = fopen(path, "r");
    if (!f) { fprintf(stderr, "gw: cannot open %s\n", path); return -1; }
    size_t cap = 1 << 20;
    char *line = malloc(cap);
    int ne = 0, ni = 0;
    while (getline(&line, &cap, f) > 0) {
        if (line[0] == 'H') {
            sscanf(line, "H %d %d %d", &gw_nstates, &gw_nedges, &gw_ninit);
            gw_states = calloc(gw_nstates + 1, sizeof(gw_state));
            gw_edges = calloc(gw_nedges + 1, sizeof(gw_edge));
            gw_inits = calloc(gw_ninit + 1, sizeof(int));
            gw_edge_seen = calloc(gw_nedges + 1, 1);
        } else if (line[0] == 'I') {
            sscanf(line, "I %d", &gw_inits[ni++]);
        } else if (line[0] == 'S') {
            int idx, off = 0;
            sscanf(line, "S %d %n", &idx, &off);
            char *p = line + off;
            char *sp = strchr(p, ' ');
            if (!sp) { fprintf(stderr, "gw: bad S line\n"); return -1; }
            *sp = 0;
            char *q = sp + 1;
            q[strcspn(q, "\n")] = 0;
            gw_states[idx].obs = strdup(p);
            gw_states[idx].proj = strdup(q);
        } else if (line[0] == 'E') {
            gw_edge *e = &gw_edges[ne++];
            int off = 0;
            sscanf(line, "E %d %d %39s %d %n", &e->src, &e->dst, e->act, &e->nargs, &off);
            char *p = line + off;
            for (int i = 0; i < e->nargs && i < GW_MAXARGS; i++) {
                int n = 0;
                sscanf(p, "%47s %n", e->sargs[i], &n);
                e->args[i] = strtol(e->sargs[i], NULL, 10);
                p += n;
            }
        }
    }
    fclose(f);
    free(line);
    qsort(gw_edges, gw_nedges, sizeof(gw_edge), gw_cmp_edge);
    for (int i = 0; i < gw_nstates; i++) { gw_states[i].first = -1; gw_states[i].nedges = 0; }
    for (int i = 0; i < gw_nedges; i++) {
        gw_state *s = &gw_states[gw_edges[i].src];
        if (s->first < 0) s->first = i;
        s->nedges++;
    }
    return 0;
}

/* ---- distinct-program accounting (open addressing set of 64-bit hashes) ---- */
static uint64_t *gw_hset;
static size_t gw_hcap;
static uint64_t gw_hash(const int *prog, int n) {
    uint64_t h = 1469598103934665603ULL;
    for (int i = 0; i < n; i++) { h ^= (uint64_t)(prog[i] + 1); h *= 1099511628211ULL; }
    return h ? h : 1;
}
static int gw_hset_add(uint64_t h) {
    if (!gw_hset) { gw_hcap = 1u << 24; gw_hset = calloc(gw_hcap, sizeof(uint64_t)); }
    size_t i = h & (gw_hcap - 1);
    for (size_t k = 0; k < gw_hcap; k++) {
        if (gw_hset[i] == h) return 0;
        if (!gw_hset[i]) { gw_hset[i] = h; return 1; }
        i = (i + 1) & (gw_hcap - 1);
    }
    return 0;
}

static void gw_fmt_edge(char *buf, size_t n, int eid) {
    gw_edge *e = &gw_edges[eid];
    int k = snprintf(buf, n, "%s(", e->act);
    for (int i = 0; i < e->nargs; i++) k += snprintf(buf + k, n - k, "%s%s", i ? "," : "", e->sargs[i]);
    snprintf(buf + k, n - k, ")");
}

static void gw_fmt_prog(char *buf, size_t n, const int *prog, int len) {
    size_t k = 0;
    buf[0] = 0;
    for (int i = 0; i < len && k + 64 < n; i++) {
        char e[256];
        gw_fmt_edge(e, sizeof e, prog[i]);
        k += snprintf(buf + k, n - k, "%s%s", i ? " " : "", e);
    }
}

/* Report a mismatch: writes a replay file, prints one MISMATCH line. */
static void gw_mismatch(const int *prog, int n, int step, const char *sig, const char *fmt, ...) {
    uint64_t nth = __atomic_add_fetch(&gw_mismatches, 1, __ATOMIC_SEQ_CST);
    if ((int)nth > gw_max_reports) return;
    char path[512];
    snprintf(path, sizeof path, "%s/%s.%s.%llu.replay", gw_replay_dir, gw_tag, sig, (unsigned long long)nth);
    for (char *c = path + strlen(gw_replay_dir) + 1; *c; c++)
        if (!(*c == '.' || *c == '-' || *c == '_' || (*c >= '0' && *c <= '9') || (*c >= 'A' && *c <= 'Z') || (*c >= 'a' && *c <= 'z'))) *c = '_';
    FILE *f = fopen(path, "w");
    char text[2048];
    va_list ap;
    va_start(ap, fmt);
    vsnprintf(text, sizeof text, fmt, ap);
    va_end(ap);
    if (f) {
        fprintf(f, "# replay: program of spec action labels; mismatch at step %d (0-based)\n# sig=%s\n# %s\n", step, sig, text);
        for (int i = 0; i < n; i++) {
            char e[256];
            gw_fmt_edge(e, sizeof e, prog[i]);
            fprintf(f, "%s%s\n", e, i == step ? "    <-- mismatch here" : "");
        }
        fclose(f);
    }
    for (char *c = text; *c; c++) if (*c == '\n') *c = ' ';
    printf("MISMATCH sig=%s replay=%s :: step %d: %s\n", sig, path, step, text);
    fflush(stdout);
}

static uint64_t gw_skip;          /* programs with ordinal < gw_skip are enumerated but not executed (resume after a child died) */
static uint64_t gw_ordinal;
static int gw_sampled; static uint64_t gw_abandoned;     /* GW_PROGS: behaviours sampled by TLC's simulation mode */
static void (*gw_final_hook)(void);                      /* driver's end-of-enumeration check (may report a mismatch) */
static int gw_forked;             /* child of the fork/resume supervisor: a mismatch ends the child, the supervisor resumes after it */
/* ---- current program (for sanitizer death callback) ---- */
static VP_TLS const int *gw_cur_prog;
static VP_TLS int gw_cur_n, gw_cur_step;
/* the replaying thread's instances, for reports raised on a thread of the library under test (task threads) */
static const int **gw_main_prog; static int *gw_main_n, *gw_main_step;
static void gw_print_stats(int complete);
void __sanitizer_set_death_callback(void (*cb)(void));
static void gw_death(void) {
    static int once;
    if (once++) return;
    char sig[96];
    if (!gw_cur_prog && gw_main_prog && *gw_main_prog) { gw_cur_prog = *gw_main_prog; gw_cur_n = *gw_main_n; gw_cur_step = *gw_main_step; }
    snprintf(sig, sizeof sig, "sanitizer-%s", gw_cur_prog && gw_cur_step < gw_cur_n ? gw_edges[gw_cur_prog[gw_cur_step]].act : "end");
    gw_max_reports = 1 << 30;
    gw_mismatch(gw_cur_prog, gw_cur_n, gw_cur_step, sig, "sanitizer/crash report while executing this step (see driver output)");
    if (gw_forked) { printf("RESUME %llu\n", (unsigned long long)gw_ordinal); }
    gw_print_stats(0);
}
static void gw_install_death(void) { gw_main_prog = &gw_cur_prog; gw_main_n = &gw_cur_n; gw_main_step = &gw_cur_step; __sanitizer_set_death_callback(gw_death); }

/* Library nondeterminism: is there a sibling edge (same source, same action, same first `fixed` args)
 * whose destination matches what the implementation produced?  Then the program is simply not the
 * branch the implementation took (inconclusive), not a mismatch. */
static int gw_sibling_matches(int eid, int fixed, const char *obs, const char *proj) {
    gw_edge *e = &gw_edges[eid];
    gw_state *s = &gw_states[e->src];
    for (int k = 0; k < s->nedges; k++) {
        gw_edge *o = &gw_edges[s->first + k];
        if (o == e || strcmp(o->act, e->act)) continue;
        int same = 1;
        for (int i = 0; i < fixed && i < e->nargs; i++) if (strcmp(o->sargs[i], e->sargs[i])) same = 0;
        if (!same) continue;
        if (!strcmp(gw_states[o->dst].obs, obs) && !strcmp(gw_states[o->dst].proj, proj)) return 1;
    }
    return 0;
}

static void gw_resume_exit(void) {
    printf("RESUME %llu\n", (unsigned long long)gw_ordinal);
    gw_print_stats(0);
    fflush(stdout);
    _exit(77);
}
/* optional: collect programs instead of executing them (threaded replay) */
static int **gw_coll; static int *gw_coll_len; static int gw_ncoll, gw_coll_cap;
static int gw_exec(const int *prog, int n) {
    if (gw_coll_cap) {
        if (gw_ncoll < gw_coll_cap) { gw_coll[gw_ncoll] = malloc(sizeof(int) * n); memcpy(gw_coll[gw_ncoll], prog, sizeof(int) * n); gw_coll_len[gw_ncoll++] = n; }
        return 0;
    }
    int skipped = gw_ordinal++ < gw_skip;
    for (int i = 0; i < n; i++) if (!gw_edge_seen[prog[i]]) { gw_edge_seen[prog[i]] = 1; gw_edges_covered++; }
    int fresh = gw_hset_add(gw_hash(prog, n));
    if (skipped) return 0;                 /* executed by an earlier child of the supervisor */
    gw_cur_prog = prog; gw_cur_n = n; gw_cur_step = 0;
    gw_programs++;
    gw_steps += n;
    if (fresh) {
        gw_distinct++;
        if (gw_is_nontrivial(prog, n)) {
            gw_nontrivial++;
            if (gw_samples_left > 0 && n >= 3 && !gw_skip) {
                char buf[2048];
                gw_fmt_prog(buf, sizeof buf, prog, n);
                printf("SAMPLE %s\n", buf);
                gw_samples_left--;
            }
        }
    }
    int rc = gw_run(prog, n);
    if (rc == 1 && gw_forked) gw_resume_exit();
    return rc;
}

/* ---- optional: every program must end in a terminal (dead-end) state (drivers that cannot abandon a run midway) ---- */
static int gw_need_terminal;
static int (*gw_target_fn)(int state);   /* optional: which states count as terminal for completion (default: dead ends) */
static int *gw_to_term;      /* next edge on a shortest path to a dead-end state, -1 at dead ends, -2 unreachable */
static void gw_build_to_term(void) {
    gw_to_term = malloc(sizeof(int) * gw_nstates);
    int *dist = malloc(sizeof(int) * gw_nstates);
    for (int i = 0; i < gw_nstates; i++) {
        int t = gw_target_fn ? gw_target_fn(i) : gw_states[i].nedges == 0;
        gw_to_term[i] = t ? -1 : -2; dist[i] = t ? 0 : 1 << 30;
    }
    for (int changed = 1; changed;) {
        changed = 0;
        for (int e = 0; e < gw_nedges; e++) {
            int s = gw_edges[e].src, d = gw_edges[e].dst;
            if (dist[d] < (1 << 30) && dist[d] + 1 < dist[s]) { dist[s] = dist[d] + 1; gw_to_term[s] = e; changed = 1; }
        }
    }
    free(dist);
}
static int gw_complete(int *prog, int len, int cap) {
    if (!gw_need_terminal) return len;
    if (!gw_to_term) gw_build_to_term();
    int cur = len ? gw_edges[prog[len - 1]].dst : gw_inits[0];
    while (gw_to_term[cur] >= 0 && len < cap) { prog[len++] = gw_to_term[cur]; cur = gw_edges[prog[len - 1]].dst; }
    return len;
}

/* optional wall-time budget (GW_WALL_S): path enumeration may use 55% of it, the edge cover goes on until 85%, walks until 100%;
   a phase cut short by the clock is reported as incomplete, never as an error */
static time_t gw_t0; static long gw_wall_s; static int gw_time_cut, gw_paths_cut;
static int gw_timeup(int pct) {
    if (!gw_wall_s) return 0;
    if (time(NULL) - gw_t0 >= gw_wall_s * pct / 100) { gw_time_cut = 1; return 1; }
    return 0;
}
/* all maximal paths of length <= D from every initial state (every path <= D is a prefix of one) */
static void gw_dfs(int st, int *prog, int depth, int D, uint64_t budget) {
    if (gw_ordinal >= budget || gw_paths_cut) return;
    if ((gw_ordinal & 255) == 0 && gw_timeup(55)) { gw_paths_cut = 1; return; }
    gw_state *s = &gw_states[st];
    if (depth == D || s->nedges == 0) {
        if (depth > 0) {
            int len = gw_complete(prog, depth, D + gw_nstates + 2);
            gw_exec(prog, len);
        }
        return;
    }
    int ext = 0;
    for (int k = 0; k < s->nedges; k++) {
        if (gw_is_observer(&gw_edges[s->first + k])) continue;
        ext++;
        prog[depth] = s->first + k;
        gw_dfs(gw_edges[s->first + k].dst, prog, depth + 1, D, budget);
    }
    if (!ext && depth > 0) gw_exec(prog, depth);
}

static int gw_paths(int D, uint64_t budget) {
    int *prog = calloc(D + gw_nstates + 4, sizeof(int));
    uint64_t before = gw_ordinal;
    gw_obs_mode = 1;
    for (int i = 0; i < gw_ninit; i++) gw_dfs(gw_inits[i], prog, 0, D, budget);
    gw_obs_mode = 0;
    free(prog);
    return gw_ordinal - before < budget && !gw_paths_cut;   /* 1 = enumeration complete */
}

/* edge cover: BFS tree from the inits gives a shortest prefix to every state; for every edge run prefix+edge (+ tail) */
static void gw_cover(int tail, unsigned seed) {
    int *pred = malloc(sizeof(int) * gw_nstates);
    int *queue = malloc(sizeof(int) * gw_nstates);
    for (int i = 0; i < gw_nstates; i++) pred[i] = -2;
    int qh = 0, qt = 0;
    for (int i = 0; i < gw_ninit; i++) { pred[gw_inits[i]] = -1; queue[qt++] = gw_inits[i]; }
    while (qh < qt) {
        int s = queue[qh++];
        for (int k = 0; k < gw_states[s].nedges; k++) {
            int e = gw_states[s].first + k, d = gw_edges[e].dst;
            if (pred[d] == -2) { pred[d] = e; queue[qt++] = d; }
        }
    }
    int cap = 2 * gw_nstates + tail + 8;
    int *prog = malloc(sizeof(int) * cap), *rev = malloc(sizeof(int) * cap);
    srand(seed);
    long cover_max = getenv("GW_COVER_MAX") ? atol(getenv("GW_COVER_MAX")) : -1, done = 0;
    /* when capped, start at a seed-dependent edge so that different seeds cover different parts */
    int start = cover_max >= 0 && gw_nedges ? (int)((seed * 2654435761u) % (unsigned)gw_nedges) : 0;
    for (int e0 = 0; e0 < gw_nedges; e0++) {
        int e = (e0 + start) % gw_nedges;
        if (gw_edge_seen[e]) continue;
        if (cover_max >= 0 && done++ >= cover_max) break;
        if ((e0 & 63) == 0 && gw_timeup(85)) break;
        if (pred[gw_edges[e].src] == -2) continue;   /* unreachable */
        int n = 0, s = gw_edges[e].src;
        while (pred[s] >= 0) { rev[n++] = pred[s]; s = gw_edges[pred[s]].src; }
        int len = 0;
        for (int i = n - 1; i >= 0; i--) prog[len++] = rev[i];
        prog[len++] = e;
        int cur = gw_edges[e].dst;
        for (int t = 0; t < tail && gw_states[cur].nedges > 0; t++) {
            int k = gw_states[cur].first + rand() % gw_states[cur].nedges;
            prog[len++] = k;
            cur = gw_edges[k].dst;
        }
        len = gw_complete(prog, len, cap);
        gw_exec(prog, len);
    }
    free(pred); free(queue); free(prog); free(rev);
}

static void gw_walks(uint64_t N, int L, unsigned seed) {
    int *prog = malloc(sizeof(int) * (L + gw_nstates + 4));
    srand(seed);
    for (uint64_t w = 0; w < N; w++) {
        if ((w & 63) == 0 && gw_timeup(100)) break;
        int cur = gw_inits[rand() % gw_ninit], len = 0;
        while (len < L && gw_states[cur].nedges > 0) {
            int k = gw_states[cur].first + rand() % gw_states[cur].nedges;
            prog[len++] = k;
            cur = gw_edges[k].dst;
        }
        len = gw_complete(prog, len, L + gw_nstates + 2);
        if (len) gw_exec(prog, len);
    }
    free(prog);
}

/* ---- cold starts: every first step (and every pair of first steps) a program can take is executed in a pristine process -
 * a fork of this one, taken before the library under test was used at all - so that what the library creates lazily, once per
 * process (thread-specific keys, once-initialisers), is exercised with every call as the very first one. Only in a child of the
 * supervisor (the failing grandchild reports and prints the resume point, the child then ends). ---- */
static int gw_cold_enabled;
static void gw_cold_run(const int *prog, int len) {
    if (gw_ordinal < gw_skip) { gw_ordinal++; return; }
    fflush(stdout);
    pid_t pid = fork();
    if (pid == 0) {
        int rc = gw_exec(prog, len);      /* a mismatch or a sanitizer report prints RESUME and ends this process */
        fflush(stdout);
        _exit(rc == 1 ? 77 : 0);
    }
    int st = 0;
    if (pid > 0) waitpid(pid, &st, 0);
    gw_ordinal++; gw_programs++; gw_steps += len;
    for (int i = 0; i < len; i++) if (!gw_edge_seen[prog[i]]) { gw_edge_seen[prog[i]] = 1; gw_edges_covered++; }
    if (pid < 0 || !WIFEXITED(st) || WEXITSTATUS(st) != 0) { fflush(stdout); _exit(77); }
}
static void gw_cold(void) {
    if (!gw_cold_enabled || !gw_forked) return;
    int cap = gw_nstates + 8, *prog = malloc(sizeof(int) * cap);
    for (int i = 0; i < gw_ninit; i++) {
        gw_state *s = &gw_states[gw_inits[i]];
        for (int k = 0; k < s->nedges; k++) {
            prog[0] = s->first + k;
            int len = gw_complete(prog, 1, cap);
            if (len) gw_cold_run(prog, len);
            gw_state *d = &gw_states[gw_edges[prog[0]].dst];
            for (int j = 0; j < d->nedges && !gw_timeup(20); j++) {
                prog[1] = d->first + j;
                len = gw_complete(prog, 2, cap);
                if (len) gw_cold_run(prog, len);
            }
        }
    }
    free(prog);
}

static void gw_print_stats(int complete) {
    printf("STATS {\"programs\": %llu, \"steps\": %llu, \"distinct\": %llu, \"nontrivial\": %llu, \"mismatches\": %llu, "
           "\"edges\": %d, \"edges_covered\": %llu, \"states\": %d, \"time_cut\": %d, \"paths_complete\": %s}\n",
           (unsigned long long)gw_programs, (unsigned long long)gw_steps, (unsigned long long)gw_distinct,
           (unsigned long long)gw_nontrivial, (unsigned long long)gw_mismatches, gw_nedges,
           (unsigned long long)gw_edges_covered, gw_nstates, gw_time_cut, complete ? "true" : "false");
    fflush(stdout);
}

#ifdef GW_SIMPLE_RUNNER
/* Shared stepping loop for sequential-object drivers.  The driver provides:
 *   gw_begin()                         fresh implementation object(s)
 *   gw_step(e, obs, proj, n)           execute spec action e on the implementation; render outputs and projection
 *   gw_end(leakmsg, n)                 teardown; returns non-zero and fills leakmsg if something is left over
 *   gw_sig(prog, i, e, ok_obs, sig, n) signature of a mismatch (stable, input-specific)
 *   gw_choice_fixed(e)                 -1, or the number of leading args that are NOT a library choice        */
static void gw_begin(void);
static void gw_step(const gw_edge *e, char *obs, char *proj, size_t n);
static int gw_end(char *msg, size_t n);
static void gw_sig(const int *prog, int i, const gw_edge *e, int ok_obs, char *sig, size_t n);
static int gw_choice_fixed(const gw_edge *e);

static int gw_check_step(const int *prog, int n, int i, int eid) {
    char obs[1024], proj[2048];
    gw_edge *e = &gw_edges[eid];
    gw_state *d = &gw_states[e->dst];
    gw_step(e, obs, proj, sizeof obs);
    gw_steps++;
    int ok_obs = !strcmp(obs, d->obs), ok_proj = !strcmp(proj, d->proj);
    if (ok_obs && ok_proj) return 0;
    int fixed = gw_choice_fixed(e);
    if (fixed >= 0 && gw_sibling_matches(eid, fixed, obs, proj)) return 3;
    /* sampled behaviours (GW_PROGS) carry no sibling edges: a step whose arguments include a library choice and whose outcome differs
       is "the library chose otherwise" - the behaviour is abandoned there (the enumerated configurations judge these steps) */
    if (fixed >= 0 && gw_sampled) { gw_abandoned++; return 3; }
    char sig[160];
    gw_sig(prog, i, e, ok_obs, sig, sizeof sig);
    char lab[256];
    gw_fmt_edge(lab, sizeof lab, eid);
    gw_mismatch(prog, n, i, sig, "at %s%s: expected obs=%s proj=%s ; got obs=%s proj=%s", lab,
                (gw_obs_mode && gw_is_observer(e)) ? " (observer run at this node)" : "", d->obs, d->proj, obs, proj);
    return 1;
}

static int gw_run(const int *prog, int n) {
    gw_begin();
    int rc = 0;
    gw_steps -= n;   /* counted per executed step below */
    for (int i = 0; i < n && !rc; i++) {
        gw_cur_step = i;
        rc = gw_check_step(prog, n, i, prog[i]);
        if (rc || !gw_obs_mode) continue;
        gw_state *s = &gw_states[gw_edges[prog[i]].dst];
        for (int k = 0; k < s->nedges && !rc; k++)
            if (gw_is_observer(&gw_edges[s->first + k])) {
                if (!gw_edge_seen[s->first + k]) { gw_edge_seen[s->first + k] = 1; gw_edges_covered++; }
                rc = gw_check_step(prog, n, i, s->first + k);
                if (rc == 3) rc = 0;
            }
    }
    gw_cur_step = n;
    char msg[256];
    if (gw_end(msg, sizeof msg) && rc == 0) {
        gw_mismatch(prog, n, n - 1, "leak", "%s", msg);
        rc = 1;
    }
    return rc;
}
#endif

/* replay one recorded program: lines "Act(arg,arg)" (anything after whitespace is ignored, '#' lines skipped) */
static int gw_verbose;
static int gw_replay_file(const char *path) {
    FILE *f = fopen(path, "r");
    if (!f) { fprintf(stderr, "cannot open %s\n", path); return 2; }
    int *prog = malloc(sizeof(int) * 100000), n = 0, cur = gw_inits[0];
    char line[1024];
    while (fgets(line, sizeof line, f)) {
        if (line[0] == '#' || line[0] == '\n') continue;
        line[strcspn(line, " \t\n")] = 0;
        int found = -1;
        for (int k = 0; k < gw_states[cur].nedges; k++) {
            char lab[256];
            gw_fmt_edge(lab, sizeof lab, gw_states[cur].first + k);
            if (!strcmp(lab, line)) { found = gw_states[cur].first + k; break; }
        }
        if (found < 0) { fprintf(stderr, "replay: step %d '%s' is not an edge of the current spec state (graph changed?)\n", n, line); return 2; }
        prog[n++] = found;
        cur = gw_edges[found].dst;
    }
    fclose(f);
    gw_verbose = 1;
    int rc = gw_exec(prog, n);
    printf("REPLAY rc=%d\n", rc);
    gw_print_stats(1);
    return rc ? 1 : 0;
}

/* GW_PROGS=<file>: programs given explicitly (behaviours sampled by TLC's simulation mode): one action label per line as in
   replay files, programs separated by a line "--"; each is completed to a terminal state when the known graph has a way */
static int gw_progs(const char *path) {
    gw_sampled = 1;
    FILE *f = fopen(path, "r");
    if (!f) { fprintf(stderr, "cannot open %s\n", path); return 2; }
    int cap = 4096 + gw_nstates, *prog = malloc(sizeof(int) * cap), n = 0, cur = gw_inits[0], bad = 0;
    char line[2048];
    while (fgets(line, sizeof line, f)) {
        line[strcspn(line, " \t\n")] = 0;
        if (!strcmp(line, "--")) {
            if (n && !bad) { int len = gw_complete(prog, n, cap - 2); gw_exec(prog, len); }
            n = 0; cur = gw_inits[0]; bad = 0;
            if (gw_timeup(100)) break;
            continue;
        }
        if (bad || !line[0] || n >= 4000) continue;
        int found = -1;
        for (int k = 0; k < gw_states[cur].nedges; k++) {
            char lab[256];
            gw_fmt_edge(lab, sizeof lab, gw_states[cur].first + k);
            if (!strcmp(lab, line)) { found = gw_states[cur].first + k; break; }
        }
        if (found < 0) { bad = 1; continue; }          /* (label longer than the formatter's buffer: skip this behaviour) */
        prog[n++] = found;
        cur = gw_edges[found].dst;
    }
    fclose(f);
    free(prog);
    return 0;
}

/* standard CLI:  <table> <replaydir> <tag> <D> <budget> <walks> <walklen> <seed> */
static int gw_main(int argc, char **argv) {
    if (argc < 9) { fprintf(stderr, "usage: %s table replaydir tag D budget walks walklen seed\n", argv[0]); return 2; }
    if (gw_load(argv[1])) return 2;
    gw_install_death();
    gw_replay_dir = argv[2];
    gw_tag = argv[3];
    if (getenv("GW_REPLAY")) return gw_replay_file(getenv("GW_REPLAY"));
    int D = atoi(argv[4]);
    uint64_t budget = strtoull(argv[5], NULL, 10);
    uint64_t walks = strtoull(argv[6], NULL, 10);
    int L = atoi(argv[7]);
    unsigned seed = (unsigned)strtoul(argv[8], NULL, 10);
    gw_t0 = time(NULL); gw_wall_s = getenv("GW_WALL_S") ? atol(getenv("GW_WALL_S")) : 0;
    if (getenv("GW_FORK")) {
        /* supervisor: run the enumeration in a child; when the child dies on a mismatch/crash, resume after that program */
        uint64_t skip = 0;
        int max_children = getenv("GW_MAX_CHILDREN") ? atoi(getenv("GW_MAX_CHILDREN")) : 200;
        /* once something was found, the remaining enumeration gets a bounded amount of wall time (a defect that makes every
           other program hang would otherwise cost max_children x the hang timeout) */
        time_t first_bad = 0;
        long after_bad = getenv("GW_AFTER_MISMATCH_S") ? atol(getenv("GW_AFTER_MISMATCH_S")) : 180;
        for (int c = 0; c < max_children; c++) {
            if (first_bad && time(NULL) - first_bad > after_bad) break;
            int pfd[2];
            if (pipe(pfd)) return 2;
            fflush(stdout);
            pid_t pid = fork();
            if (pid == 0) {
                close(pfd[0]);
                dup2(pfd[1], 1);
                close(pfd[1]);
                gw_forked = 1; gw_skip = skip;
                unsetenv("GW_FORK");
                int complete = 1;
                if (getenv("GW_PROGS")) { gw_progs(getenv("GW_PROGS")); complete = 0; }
                else {
                gw_cold();
                if (D > 0) complete = gw_paths(D, budget);
                gw_cover(getenv("GW_COVER_TAIL") ? atoi(getenv("GW_COVER_TAIL")) : 4, seed);
                if (walks) gw_walks(walks, L, seed + 17);
                }
                if (gw_final_hook) gw_final_hook();
                gw_print_stats(complete);
                fflush(stdout);
                _exit(0);
            }
            close(pfd[1]);
            FILE *in = fdopen(pfd[0], "r");
            char *line = NULL; size_t cap = 0; long long resume = -1;
            while (getline(&line, &cap, in) > 0) {
                if (!strncmp(line, "RESUME ", 7)) resume = atoll(line + 7);
                else fputs(line, stdout);
            }
            free(line);
            fclose(in);
            int st = 0;
            waitpid(pid, &st, 0);
            if (WIFEXITED(st) && WEXITSTATUS(st) == 0) return 0;
            if (resume < 0) { printf("MISMATCH sig=driver-died replay=- :: child ended with status %d without a resume point\n", st); return 1; }
            if (!first_bad) first_bad = time(NULL);
            skip = (uint64_t)resume;     /* gw_ordinal was already incremented past the failing program */
        }
        printf("NOTE too many child restarts; enumeration truncated\n");
        gw_print_stats(0);
        return 0;
    }
    int complete = 1;
    if (getenv("GW_PROGS")) { gw_progs(getenv("GW_PROGS")); complete = 0; }
    else {
    if (D > 0) complete = gw_paths(D, budget);
    gw_cover(getenv("GW_COVER_TAIL") ? atoi(getenv("GW_COVER_TAIL")) : 4, seed);
    if (walks) gw_walks(walks, L, seed + 17);
    }
    if (gw_final_hook) gw_final_hook();
    gw_print_stats(complete);
    return 0;
}
#endif
