/* drv_thpool.c - controlled-schedule replay of Thpool.tla behaviours through the real thpool.c.
 * Every logical thread (main, submitters, workers) is a real pthread parked on its own semaphore; exactly one
 * runs at a time, from one announced pthread operation to its next announcement.  The controller releases the
 * thread named by the next step of the TLC behaviour and checks that (a) the operation it had announced is the
 * spec action of that step and (b) after the step the projection
 *      lock holder | pending operation of every thread | task states | pool memory freed
 * equals the spec state.  env: VP_N, VP_SUBS ("2,1" = tasks per submitter), VP_LAZY, VP_DETACHED, VP_WAITALL */
#define VP_SCHED_IMPL
#include "vp_sched.h"
#include "gw.h"
#include "vp_alloc.h"
#include <semaphore.h>
#include <time.h>
#include <stdbool.h>
#include "public/module/thpool/thpool.h"

enum { OP_NONE = 0, OP_LOCK, OP_UNLOCK, OP_CONDWAIT, OP_SLEEP, OP_RELOCK, OP_SIGNAL, OP_BCAST, OP_CREATE, OP_JOIN,
       OP_CDESTROY, OP_MDESTROY, OP_TASKBEGIN, OP_TASKEND, OP_START, OP_JOINSUBS, OP_EXITED };
static const char OPC[] = "-LUWSRGCTJcmBEsjX";

#define MAXT 16
typedef struct lthread {
    int used, kind /*0 main 1 sub 2 worker*/, idx, started;
    pthread_t real;
    sem_t go;
    volatile int op;
    volatile long arg;
    void *(*fn)(void *);
    void *fnarg;
    sem_t *first;          /* post this (not ctl) at the first announcement / exit */
    int joined;
} lthread;
static lthread LT[MAXT];
static __thread lthread *self;
static sem_t ctl;
static volatile int holder;           /* 0 free, else lock-holder id as in the spec */
static int nworkers;
static volatile int diverged;
static char divmsg[256];

static int cfgN, nsubs, lazy, detached, waitall;
static int ntasks_of[8], first_task[8], ntasks;
static struct { volatile int begun, ended, badarg; } TS[16];
static int targ[16];
static m_thpool_t *pool;
static int pool_watch = -1;
static int add_failed;
static int follow[16];                  /* VP_FOLLOW="1:3,2:4": task 1 submits task 3 to its own pool while it runs, ... */
static int nfollow;

static int spec_id(lthread *t) { return t->kind == 0 ? -1 : t->kind == 1 ? -(1 + t->idx) : t->idx; }
static lthread *worker(int w) { for (int i = 0; i < MAXT; i++) if (LT[i].used && LT[i].kind == 2 && LT[i].idx == w) return &LT[i]; return NULL; }
static lthread *sub(int s) { for (int i = 0; i < MAXT; i++) if (LT[i].used && LT[i].kind == 1 && LT[i].idx == s) return &LT[i]; return NULL; }

static void announce(void) {
    if (self->first) { sem_t *f = self->first; self->first = NULL; sem_post(f); }
    else sem_post(&ctl);
}
static void vp_yield(int op, long arg) {
    self->op = op; self->arg = arg;
    announce();
    sem_wait(&self->go);
}
static void *trampoline(void *p) {
    self = p;
    self->fn(self->fnarg);
    self->op = OP_EXITED;
    announce();
    return NULL;
}
static lthread *spawn(int kind, int idx, void *(*fn)(void *), void *arg, int wait_first) {
    lthread *t = NULL;
    for (int i = 0; i < MAXT; i++) if (!LT[i].used) { t = &LT[i]; break; }
    memset(t, 0, sizeof *t);
    t->used = 1; t->kind = kind; t->idx = idx; t->fn = fn; t->fnarg = arg;
    sem_init(&t->go, 0, 0);
    sem_t ready;
    sem_init(&ready, 0, 0);
    t->first = wait_first ? &ready : NULL;
    pthread_create(&t->real, NULL, trampoline, t);
    if (wait_first) sem_wait(&ready);
    sem_destroy(&ready);
    return t;
}

/* ---- the pthread operations of thpool.c ---- */
int vp_mutex_init(pthread_mutex_t *m, const pthread_mutexattr_t *a) { return 0; }
int vp_cond_init(pthread_cond_t *c, const pthread_condattr_t *a) { return 0; }
int vp_attr_setdetachstate(pthread_attr_t *attr, int st) { return 0; }
int vp_mutex_lock(pthread_mutex_t *m) {
    vp_yield(OP_LOCK, 0);
    if (holder != 0) { diverged = 1; snprintf(divmsg, sizeof divmsg, "lock granted while held by %d", holder); }
    holder = spec_id(self);
    return 0;
}
int vp_mutex_unlock(pthread_mutex_t *m) {
    vp_yield(OP_UNLOCK, 0);
    if (holder != spec_id(self)) { diverged = 1; snprintf(divmsg, sizeof divmsg, "unlock by %d of a lock held by %d", spec_id(self), holder); }
    holder = 0;
    return 0;
}
int vp_cond_wait(pthread_cond_t *c, pthread_mutex_t *m) {
    vp_yield(OP_CONDWAIT, 0);
    if (holder != spec_id(self)) { diverged = 1; snprintf(divmsg, sizeof divmsg, "cond_wait without holding the lock"); }
    holder = 0;
    vp_yield(OP_SLEEP, 0);          /* the controller turns SLEEP into RELOCK on signal / broadcast / spurious wake-up */
    if (holder != 0) { diverged = 1; snprintf(divmsg, sizeof divmsg, "relock granted while held by %d", holder); }
    holder = spec_id(self);
    return 0;
}
int vp_cond_signal(pthread_cond_t *c) { vp_yield(OP_SIGNAL, 0); return 0; }       /* wake-up applied by the controller */
int vp_cond_broadcast(pthread_cond_t *c) { vp_yield(OP_BCAST, 0); return 0; }
int vp_cond_destroy(pthread_cond_t *c) { vp_yield(OP_CDESTROY, 0); return 0; }
int vp_mutex_destroy(pthread_mutex_t *m) { vp_yield(OP_MDESTROY, 0); return 0; }
int vp_thread_create(pthread_t *th, const pthread_attr_t *attr, void *(*fn)(void *), void *arg) {
    vp_yield(OP_CREATE, 0);
    int w = ++nworkers;
    lthread *t = spawn(2, w, fn, arg, 1);
    *th = (pthread_t)(uintptr_t)(t - LT + 1);
    return 0;
}
int vp_thread_join(pthread_t th, void **ret) {
    lthread *t = &LT[(uintptr_t)th - 1];
    vp_yield(OP_JOIN, t->idx);
    pthread_join(t->real, NULL);
    t->joined = 1;
    return 0;
}

/* ---- harness threads ---- */
static void *task_fn(void *arg) {
    int t = (int)((int *)arg - targ);
    if (t < 1 || t > ntasks || targ[t] != 1000 + t) { TS[0].badarg++; t = 0; }
    vp_yield(OP_TASKBEGIN, t);
    TS[t].begun++;
    /* a refused follow-up (pool shutting down) is the spec's WNRefuse path, not a failure */
    if (t > 0 && follow[t]) (void)m_thpool_add(pool, task_fn, &targ[follow[t]]);
    vp_yield(OP_TASKEND, t);
    TS[t].ended++;
    return NULL;
}
static void *sub_fn(void *arg) {
    int s = (int)(intptr_t)arg;
    for (int k = 0; k < ntasks_of[s]; k++) {
        int t = first_task[s] + k;
        if (m_thpool_add(pool, task_fn, &targ[t]) != 0) add_failed++;
    }
    return NULL;
}
static void *main_fn(void *arg) {
    pool = m_thpool_new((uint8_t)cfgN, (lazy ? M_THPOOL_LAZY : 0) | (detached ? M_THPOOL_DETACHED : 0));
    vp_watch_reset();
    pool_watch = vp_watch(pool);
    vp_yield(OP_START, 0);
    for (int s = 1; s <= nsubs; s++) spawn(1, s, sub_fn, (void *)(intptr_t)s, 1);
    vp_yield(OP_JOINSUBS, 0);
    for (int s = 1; s <= nsubs; s++) { lthread *t = sub(s); pthread_join(t->real, NULL); t->joined = 1; }
    m_thpool_free(&pool, waitall);
    return NULL;
}

/* ---- controller ---- */
static int wait_ctl(void) {
    struct timespec ts;
    clock_gettime(CLOCK_REALTIME, &ts);
    ts.tv_sec += 10;
    while (sem_timedwait(&ctl, &ts) != 0) { if (errno == EINTR) continue; return -1; }
    return 0;
}
static int grant(lthread *t) {
    sem_post(&t->go);
    return wait_ctl();
}

static void project(char *buf, size_t n) {
    size_t k = snprintf(buf, n, "%d|M%c", holder, OPC[LT[0].op]);
    for (int s = 1; s <= nsubs; s++) { lthread *t = sub(s); k += snprintf(buf + k, n - k, "|S%c", t ? OPC[t->op] : '-'); }
    for (int w = 1; w <= cfgN; w++) { lthread *t = worker(w); k += snprintf(buf + k, n - k, "|W%c", t ? OPC[t->op] : '-'); }
    k += snprintf(buf + k, n - k, "|");
    for (int t = 1; t <= ntasks; t++) {
        char c = TS[t].begun > 1 ? '2' : TS[t].ended ? 'd' : TS[t].begun ? 'r' : 'q';
        k += snprintf(buf + k, n - k, "%c", c);
    }
    snprintf(buf + k, n - k, "|%d%s%s", pool_watch >= 0 && vp_watch_freed[pool_watch] ? 1 : 0, TS[0].badarg ? "|BADARG" : "", add_failed ? "|ADDFAILED" : "");
}

static int expect_op(const char *act) {
    static const struct { const char *a; int op; } M[] = {
        {"MCreate", OP_CREATE}, {"MStart", OP_START}, {"MJoinSubs", OP_JOINSUBS}, {"ALock", OP_LOCK}, {"ACreate", OP_CREATE},
        {"ASignal", OP_SIGNAL}, {"AUnlock", OP_UNLOCK}, {"WLock", OP_LOCK}, {"WCondWait", OP_CONDWAIT}, {"WRelock", OP_RELOCK},
        {"WUnlockRun", OP_UNLOCK}, {"WTaskBegin", OP_TASKBEGIN}, {"WTaskEnd", OP_TASKEND}, {"WExitBcast", OP_BCAST},
        {"WExitUnlock", OP_UNLOCK}, {"WNLock", OP_LOCK}, {"WNRefuse", OP_UNLOCK}, {"WNCreate", OP_CREATE}, {"WNSignal", OP_SIGNAL}, {"WNUnlock", OP_UNLOCK}, {"FLock", OP_LOCK}, {"FBroadcast", OP_BCAST}, {"FUnlock", OP_UNLOCK}, {"FJoin", OP_JOIN},
        {"FLock2", OP_LOCK}, {"FCondWait", OP_CONDWAIT}, {"FRelock", OP_RELOCK}, {"FUnlock2", OP_UNLOCK},
        {"FCondDestroy", OP_CDESTROY}, {"FMutexDestroy", OP_MDESTROY}, {NULL, 0}};
    for (int i = 0; M[i].a; i++) if (!strcmp(M[i].a, act)) return M[i].op;
    return -1;
}

static void die_mismatch(const int *prog, int n, int i, const char *sig, const char *msg) {
    gw_mismatch(prog, n, i, sig, "%s", msg);
    gw_print_stats(0);
    fflush(stdout);
    _exit(1);       /* threads are parked inside library code: no way to unwind */
}

static int gw_is_observer(const gw_edge *e) { return 0; }
static int gw_is_nontrivial(const int *prog, int n) {
    /* a schedule in which some worker slept and was woken, or shutdown began while a task was running/queued */
    for (int i = 0; i < n; i++) { const char *a = gw_edges[prog[i]].act; if (!strcmp(a, "WRelock") || !strcmp(a, "WSpurious")) return 1; }
    return 0;
}

static int gw_run(const int *prog, int n) {
    char proj[512], msg[1024], sig[128];
    long base = vp_outstanding;
    memset(LT, 0, sizeof LT); memset((void *)TS, 0, sizeof TS);
    holder = 0; nworkers = 0; diverged = 0; add_failed = 0; pool = NULL; pool_watch = -1;
    for (int t = 1; t <= ntasks; t++) targ[t] = 1000 + t;
    sem_init(&ctl, 0, 0);
    /* main logical thread in slot 0: runs m_thpool_new up to its first announcement */
    memset(&LT[0], 0, sizeof LT[0]);
    LT[0].used = 1; LT[0].kind = 0; LT[0].fn = main_fn;
    sem_init(&LT[0].go, 0, 0);
    pthread_create(&LT[0].real, NULL, trampoline, &LT[0]);
    if (wait_ctl()) die_mismatch(prog, n, 0, "thpool-hang-new", "m_thpool_new did not reach a scheduling point");
    for (int i = 0; i < n; i++) {
        gw_cur_step = i;
        gw_edge *e = &gw_edges[prog[i]];
        gw_state *d = &gw_states[e->dst];
        const char *a = e->act;
        if (!strcmp(a, "WSpurious")) {
            lthread *t = worker((int)e->args[0]);
            if (!t || t->op != OP_SLEEP) { snprintf(msg, sizeof msg, "spurious wake-up of worker %ld which is not sleeping", e->args[0]); die_mismatch(prog, n, i, "thpool-WSpurious-op", msg); }
            t->op = OP_RELOCK;
        } else if (!strcmp(a, "FSpurious")) {
            if (LT[0].op != OP_SLEEP) die_mismatch(prog, n, i, "thpool-FSpurious-op", "main not sleeping");
            LT[0].op = OP_RELOCK;
        } else {
            lthread *t = a[0] == 'A' ? sub((int)e->args[0]) : a[0] == 'W' ? worker((int)e->args[0]) : &LT[0];
            int want = expect_op(a);
            if (!t || t->op != want) {
                snprintf(msg, sizeof msg, "spec step %s expects thread to be at operation '%c' but the implementation thread is at '%c'",
                         a, OPC[want], t ? OPC[t->op] : '?');
                snprintf(sig, sizeof sig, "thpool-%s-op", a);
                die_mismatch(prog, n, i, sig, msg);
            }
            if (want == OP_JOIN && t->arg != e->args[0]) die_mismatch(prog, n, i, "thpool-FJoin-target", "join target differs");
            if (want == OP_TASKBEGIN) { /* the spec says which task this worker holds: cur[w] is in the source state's projection via tasks; checked through the task-state string */ }
            /* wake-ups decided by this step */
            if (want == OP_SIGNAL && e->args[1] > 0) { lthread *s = worker((int)e->args[1]); if (s && s->op == OP_SLEEP) s->op = OP_RELOCK; }
            if (want == OP_BCAST) for (int k = 0; k < MAXT; k++) if (LT[k].used && LT[k].op == OP_SLEEP) LT[k].op = OP_RELOCK;
            if (want == OP_RELOCK) t->op = OP_SLEEP;   /* resume from the second half of cond_wait */
            if (grant(t)) { snprintf(sig, sizeof sig, "thpool-%s-hang", a); die_mismatch(prog, n, i, sig, "thread did not reach its next scheduling point within 10 s"); }
        }
        if (diverged) { snprintf(sig, sizeof sig, "thpool-%s-lockdiscipline", a); die_mismatch(prog, n, i, sig, divmsg); }
        project(proj, sizeof proj);
        if (strcmp(proj, d->proj)) {
            snprintf(msg, sizeof msg, "after %s: expected %s ; got %s  (lock|M<op>|S<op>..|W<op>..|tasks|freed; ops: L lock U unlock W condwait S sleeping R relock G signal C broadcast T create J join c/m destroy B/E task begin/end X exited)", a, d->proj, proj);
            snprintf(sig, sizeof sig, "thpool-%s-state", a);
            die_mismatch(prog, n, i, sig, msg);
        }
    }
    gw_cur_step = n;
    /* terminal state: everything exited; reap real threads */
    for (int k = 0; k < MAXT; k++) if (LT[k].used && !LT[k].joined) {
        if (LT[k].op != OP_EXITED) { snprintf(msg, sizeof msg, "thread %d still parked at '%c' at the end of a complete behaviour", spec_id(&LT[k]), OPC[LT[k].op]); die_mismatch(prog, n, n - 1, "thpool-end-parked", msg); }
        pthread_join(LT[k].real, NULL);
    }
    for (int k = 0; k < MAXT; k++) if (LT[k].used) sem_destroy(&LT[k].go);
    sem_destroy(&ctl);
    if (vp_outstanding != base) {
        snprintf(msg, sizeof msg, "allocator ledger: %ld blocks outstanding after m_thpool_free", vp_outstanding - base);
        gw_mismatch(prog, n, n - 1, "thpool-leak", "%s", msg);
        vp_outstanding = base;
        return 1;
    }
    return 0;
}

int main(int argc, char **argv) {
    cfgN = atoi(getenv("VP_N") ? getenv("VP_N") : "2");
    lazy = getenv("VP_LAZY") && atoi(getenv("VP_LAZY"));
    detached = getenv("VP_DETACHED") && atoi(getenv("VP_DETACHED"));
    waitall = getenv("VP_WAITALL") && atoi(getenv("VP_WAITALL"));
    const char *sp = getenv("VP_SUBS") ? getenv("VP_SUBS") : "2";
    nsubs = 0; ntasks = 0;
    for (const char *p = sp; *p;) { int k = atoi(p); nsubs++; ntasks_of[nsubs] = k; first_task[nsubs] = ntasks + 1; ntasks += k; while (*p && *p != ',') p++; if (*p) p++; }
    /* follow-up tasks get the ids after the submitters' tasks */
    if (getenv("VP_FOLLOW")) for (const char *p = getenv("VP_FOLLOW"); *p;) { int a = atoi(p); const char *c = strchr(p, ':'); int b = c ? atoi(c + 1) : 0; if (a > 0 && a < 16 && b > 0 && b < 16) { follow[a] = b; if (b > ntasks) ntasks = b; nfollow++; } while (*p && *p != ',') p++; if (*p) p++; }
    vp_alloc_install();
    gw_need_terminal = 1;
    return gw_main(argc, argv);
}
