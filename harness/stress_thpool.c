/* stress_thpool.c - real threads, no scheduler: the observer of memory-level races for C06 (built with ThreadSanitizer).
 * For every pool flavour (lazy/eager x detached/joinable x wait-all/wait-current) and a few sizes: S submitter threads add T tasks
 * each at the same time, then the pool is freed (after all submitters returned: documented precondition).  Oracle (C06): no task
 * runs twice or with a foreign argument, never more than N tasks at a time, wait-all => every accepted task ran, nothing runs after
 * free returned.  usage: stress_thpool <rounds> <seed> */
#include <stdio.h>
#include <stdlib.h>
#include <stdatomic.h>
#include <pthread.h>
#include <unistd.h>
#include "public/module/thpool/thpool.h"

#define MAXTASK 4096
static atomic_int ran[MAXTASK], running, max_running, after_free, freed;
static int accepted[MAXTASK];
static int N, S, T;
static m_thpool_t *pool;
static pthread_barrier_t bar;

static int nested;                 /* this round: some tasks submit a follow-up task to their own pool (possibly while it is being freed) */
static void *task(void *arg);
static void follow_up(int id) {
    int fid = MAXTASK / 2 + id;                                        /* follow-up ids live in the upper half */
    m_thpool_t *p = pool;                                              /* (NULL once free returned: then nobody may be here any more) */
    if (p) accepted[fid] = m_thpool_add(p, task, (void *)(long)fid) == 0;
}
static void *task(void *arg) {
    int id = (int)(long)arg;
    if (atomic_load(&freed)) atomic_fetch_add(&after_free, 1);
    int r = atomic_fetch_add(&running, 1) + 1;
    int m = atomic_load(&max_running);
    while (r > m && !atomic_compare_exchange_weak(&max_running, &m, r));
    if (id >= 0 && id < MAXTASK) atomic_fetch_add(&ran[id], 1);
    for (volatile int k = 0; k < (id % 7) * 50; k++);
    if (nested && id < MAXTASK / 2 && id % 3 == 0) follow_up(id);
    atomic_fetch_sub(&running, 1);
    if (atomic_load(&freed)) atomic_fetch_add(&after_free, 1);
    return NULL;
}
static void *submitter(void *arg) {
    int s = (int)(long)arg;
    pthread_barrier_wait(&bar);
    for (int t = 0; t < T; t++) { int id = s * T + t; accepted[id] = m_thpool_add(pool, task, (void *)(long)id) == 0; }
    return NULL;
}
int main(int argc, char **argv) {
    int rounds = argc > 1 ? atoi(argv[1]) : 20;
    srand(argc > 2 ? (unsigned)atoi(argv[2]) : 1);
    int bad = 0; long total = 0;
    for (int r = 0; r < rounds && !bad; r++)
        for (int fl = 0; fl < 8 && !bad; fl++) {
            int lazy = fl & 1, det = (fl >> 1) & 1, waitall = (fl >> 2) & 1;
            N = 1 + rand() % 4; S = 1 + rand() % 4; T = 1 + rand() % 40;
            nested = rand() % 2;
            for (int i = 0; i < MAXTASK; i++) { atomic_store(&ran[i], 0); accepted[i] = 0; }
            atomic_store(&running, 0); atomic_store(&max_running, 0); atomic_store(&after_free, 0); atomic_store(&freed, 0);
            pool = m_thpool_new((uint8_t)N, (lazy ? M_THPOOL_LAZY : 0) | (det ? M_THPOOL_DETACHED : 0));
            if (!pool) { printf("STRESS-FAIL new returned NULL\n"); return 1; }
            pthread_t th[4];
            pthread_barrier_init(&bar, NULL, (unsigned)S);
            for (int s = 0; s < S; s++) pthread_create(&th[s], NULL, submitter, (void *)(long)s);
            for (int s = 0; s < S; s++) pthread_join(th[s], NULL);
            pthread_barrier_destroy(&bar);
            if (rand() % 3 == 0) usleep((useconds_t)(rand() % 300));
            m_thpool_free(&pool, waitall);
            atomic_store(&freed, 1);
            usleep(200);                                   /* anything still running now runs after free returned */
            for (int i = 0; i < MAXTASK; i++) {
                if (i >= S * T && i < MAXTASK / 2) continue;
                int n = atomic_load(&ran[i]);
                if (n > 1) { printf("STRESS-FAIL flavour l%dd%dw%d N=%d S=%d T=%d: task %d ran %d times\n", lazy, det, waitall, N, S, T, i, n); bad = 1; }
                if (!accepted[i] && n) { printf("STRESS-FAIL flavour l%dd%dw%d: refused task %d ran\n", lazy, det, waitall, i); bad = 1; }
                if (waitall && accepted[i] && n != 1) { printf("STRESS-FAIL flavour l%dd%dw%d N=%d S=%d T=%d: wait-all free returned but accepted task %d ran %d times\n", lazy, det, waitall, N, S, T, i, n); bad = 1; }
                total += n;
            }
            if (atomic_load(&max_running) > N) { printf("STRESS-FAIL flavour l%dd%dw%d: %d tasks at a time in a pool of %d\n", lazy, det, waitall, atomic_load(&max_running), N); bad = 1; }
            if (atomic_load(&after_free) || atomic_load(&running)) { printf("STRESS-FAIL flavour l%dd%dw%d N=%d S=%d T=%d: a task was running after free returned\n", lazy, det, waitall, N, S, T); bad = 1; }
            if (pool) { printf("STRESS-FAIL free did not clear the handle\n"); bad = 1; }
        }
    printf("STRESS {\"rounds\": %d, \"pools\": %d, \"tasks_run\": %ld, \"bad\": %d}\n", rounds, rounds * 8, total, bad);
    return bad;
}
