/* vp_sched.h - force-included (-include) when compiling Lib/thpool/thpool.c for the controlled-schedule
 * replay: every pthread operation of the pool becomes a yield point of a cooperative scheduler
 * (harness/drv_thpool.c).  No source change to thpool.c. */
#ifndef VP_SCHED_H
#define VP_SCHED_H
#include <pthread.h>
int vp_mutex_init(pthread_mutex_t *m, const pthread_mutexattr_t *a);
int vp_mutex_destroy(pthread_mutex_t *m);
int vp_mutex_lock(pthread_mutex_t *m);
int vp_mutex_unlock(pthread_mutex_t *m);
int vp_cond_init(pthread_cond_t *c, const pthread_condattr_t *a);
int vp_cond_destroy(pthread_cond_t *c);
int vp_cond_wait(pthread_cond_t *c, pthread_mutex_t *m);
int vp_cond_signal(pthread_cond_t *c);
int vp_cond_broadcast(pthread_cond_t *c);
int vp_thread_create(pthread_t *th, const pthread_attr_t *attr, void *(*fn)(void *), void *arg);
int vp_thread_join(pthread_t th, void **ret);
int vp_attr_setdetachstate(pthread_attr_t *attr, int st);
#ifndef VP_SCHED_IMPL
#define pthread_mutex_init vp_mutex_init
#define pthread_mutex_destroy vp_mutex_destroy
#define pthread_mutex_lock vp_mutex_lock
#define pthread_mutex_unlock vp_mutex_unlock
#define pthread_cond_init vp_cond_init
#define pthread_cond_destroy vp_cond_destroy
#define pthread_cond_wait vp_cond_wait
#define pthread_cond_signal vp_cond_signal
#define pthread_cond_broadcast vp_cond_broadcast
#define pthread_create vp_thread_create
#define pthread_join vp_thread_join
#define pthread_attr_setdetachstate vp_attr_setdetachstate
#endif
#endif
