#!/bin/sh
# Offline setup: nothing to fetch; verify the toolchain the checks need and create scratch dirs.
set -e
cd "$(dirname "$0")/.."
mkdir -p build run evidence replays
command -v tlc >/dev/null
command -v clang >/dev/null
command -v python3 >/dev/null
test -d /repo/Lib
echo "setup ok"
