#!/bin/bash
# seed_ingest.sh <PROP> <k> [check-prop] : confirm a sub-agent's change, run the check against it, store under /verif/seeded/
prop=$1; k=$2; chk=${3:-$prop}; src=/tmp/seed-out/$prop/$k; dst=/verif/seeded/$prop-$k
conf=$(/verif/tools/seed_confirm.sh $src 2>&1 | tail -2)
echo "$conf"
echo "$conf" | grep -q "^CONFIRMED" || { echo "skip: not confirmed"; exit 1; }
res=$(/verif/tools/seed_run.sh $src/patch.diff $chk quick 2>&1)
echo "$res" | cut -c1-220
det=$(echo "$res" | grep -c "^VIOLATION")
mkdir -p $dst && cp $src/patch.diff $src/demo.c $src/run_demo.sh $src/notes.txt $dst/ 2>/dev/null
python3 - "$prop" "$k" "$chk" "$det" "$dst" <<'PY'
import json,sys,re
prop,k,chk,det,dst=sys.argv[1:]
notes=open(dst+"/notes.txt").read()
viol=[l for l in open("/tmp/seed_check.%s.log"%chk).read().splitlines() if l.startswith("VIOLATION")][:3]
json.dump({"breaks_property":prop,"needs_to_manifest":notes[:1500],
  "confirmed":"tools/seed_confirm.sh (scratch worktree): existing tests pass with the change (plain+valgrind), demo fails with it, passes without it",
  "ran":"tools/seed_run.sh patch.diff %s quick (git -C /repo apply; tools/check %s quick; git -C /repo checkout -- .)"%(chk,chk),
  "detected_by_check":int(det)>0,"violation_lines":viol}, open(dst+"/meta.json","w"), indent=1)
PY
echo "detected=$det"
