#!/bin/bash
# seed_confirm.sh <dir-with-patch.diff,demo.c,run_demo.sh>  : confirm independently, in a scratch worktree, that the change
#  compiles, passes the existing test-suite (plain + valgrind), that the demo fails with it and passes without it.
set -u
src=$(readlink -f "$1"); wt=/var/tmp/vp-seedwt.$$
git -C /repo worktree add -q --detach "$wt" HEAD || exit 2
trap 'git -C /repo worktree remove --force "$wt" >/dev/null 2>&1; rm -rf "$wt"' EXIT
cd "$wt"
cp "$src/demo.c" . 2>/dev/null; cp "$src"/*.h . 2>/dev/null
cmake -G Ninja -B _build -DCMAKE_BUILD_TYPE=RelWithDebInfo -DCMAKE_C_FLAGS=-Wno-error -DBUILD_TESTS=ON >/dev/null 2>&1   # also generates cmn.h/ctx.h
echo "== demo WITHOUT change"; bash "$src/run_demo.sh" >/tmp/seed_demo_without.log 2>&1; r0=$?; echo "exit=$r0"
git apply "$src/patch.diff" || { echo "PATCH DOES NOT APPLY"; exit 2; }
echo "== demo WITH change"; timeout 300 bash "$src/run_demo.sh" >/tmp/seed_demo_with.log 2>&1; r1=$?; echo "exit=$r1"
echo "== existing tests WITH change"
cmake -G Ninja -B _build -DCMAKE_BUILD_TYPE=RelWithDebInfo -DCMAKE_C_FLAGS=-Wno-error -DBUILD_TESTS=ON >/dev/null 2>&1 && cmake --build _build >/dev/null 2>&1 || { echo "BUILD FAILED"; exit 2; }
(cd _build && ctest --timeout 900 2>&1 | tail -4); 
(cd _build && ctest --timeout 900 >/dev/null 2>&1); rt=$?
echo "SUMMARY demo_without=$r0 demo_with=$r1 tests=$rt"
[ $r0 -eq 0 ] && [ $r1 -ne 0 ] && [ $rt -eq 0 ] && echo CONFIRMED || echo NOT-CONFIRMED
