#!/bin/bash
# replay_core.sh <cfg-name-without-.cfg> <replay-file> [env...] : rebuild, dump the graph of the config and replay one program verbosely
cfg=$1; rp=$2; shift 2
cd /verif && python3 - "$cfg" "$rp" "$@" <<'PY'
import sys, os
sys.path.insert(0, "tools")
import vplib, checks
cfg, rp = sys.argv[1], sys.argv[2]
env = dict(x.split("=", 1) for x in sys.argv[3:])
mods = env.get("VP_MODS", "A,B").split(",")
maxpay = int(env.get("VP_MAXPAY", "1"))
exe = checks.build_core()
R = vplib.Result("CXX", "quick", 1)
d, (st, ed, ini) = checks.e1_dump(R, "CoreMC.tla", cfg + ".cfg", cfg + ".replay")
tab = os.path.join(d, "g.tab")
vplib.write_table(tab, st, ed, ini, checks.core_canon(mods, maxpay, int(env.get("VP_NKEYS", "1"))))
e = {"VP_MODS": ",".join(mods), "VP_MAXPAY": str(maxpay), "GW_REPLAY": rp}
e.update(env)
rc, out, _ = vplib.sh([exe, tab, "/tmp", "replay", "0", "0", "0", "0", "1"], env=e, timeout=120)
print(out[-int(os.environ.get("VP_RP_TAIL", "6000")):])
vplib.cleanup(d)
PY
