#!/bin/bash
# seed_rerun.sh <PROP-k> [check-prop] : run the (current) quick check against a stored seeded change, on a scratch copy of /repo's
# working tree with the change applied (safe to run several at once), and update seeded/<PROP-k>/meta.json with the outcome.
V=$(cd "$(dirname "$0")/.." && pwd)
n=$1; prop=${n%%-*}; chk=${2:-$prop}
snap=/var/tmp/vp-sr-$n.$$; rm -rf $snap; mkdir -p $snap $snap.ev; rsync -a /repo/Lib $snap/
(cd $snap && patch -p1 -s < $V/seeded/$n/patch.diff) || { echo "$n: PATCH DOES NOT APPLY"; rm -rf $snap $snap.ev; exit 2; }
log=/tmp/seed_check.$n.log
(cd $V && VP_REPO=$snap VP_EVID=$snap.ev timeout 3000 tools/check $chk quick > $log 2>&1); rc=$?
rm -rf $snap $snap.ev
det=$(grep -c "^VIOLATION" $log)
python3 - "$n" "$chk" "$det" "$V/seeded/$n" "$log" "$rc" <<'PY'
import json,sys
n,chk,det,dst,log,rc=sys.argv[1:]
m=json.load(open(dst+"/meta.json"))
viol=[l for l in open(log).read().splitlines() if l.startswith("VIOLATION")][:3]
m["ran"]="tools/seed_rerun.sh: patch applied to a scratch copy of /repo's working tree, VP_REPO=<copy> tools/check %s quick (exit %s)"%(chk,rc)
m["detected_by_check"]=int(det)>0; m["violation_lines"]=viol
json.dump(m,open(dst+"/meta.json","w"),indent=1)
PY
echo "$n: check=$chk exit=$rc detected=$det"
