# Shared machinery for /verif checks: build, TLC runs, dot-graph parsing, graph tables,
# evidence files, known-findings policy.  stdlib only.
import atexit, json, os, re, shutil, subprocess, sys, time, hashlib, threading
from concurrent.futures import ThreadPoolExecutor

VERIF = os.path.dirname(os.path.dirname(os.path.abspath(__file__)))
REPO = os.environ.get("VP_REPO", "/repo")
SPEC = os.path.join(VERIF, "spec")
HARN = os.path.join(VERIF, "harness")
BUILD = os.path.join(VERIF, "build")
RUN = os.path.join(VERIF, "run")
EVID = os.environ.get("VP_EVID") or os.path.join(VERIF, "evidence")
GUARD = "LIBMODULE_VERIF"
TLA_JAR = "/opt/veriftools/tla/tla2tools.jar"

EXIT_OK, EXIT_VIOLATION, EXIT_BROKEN = 0, 1, 3


class Broken(Exception):
    """The check itself failed (model error, build failure, timeout) - never a violation."""


def log(*a):
    print(*a, file=sys.stderr, flush=True)


def sh(cmd, timeout=600, cwd=None, env=None, check=False, stdin=None):
    e = dict(os.environ)
    if env:
        e.update(env)
    t0 = time.time()
    try:
        p = subprocess.run(cmd, shell=isinstance(cmd, str), cwd=cwd, env=e, timeout=timeout,
                           stdout=subprocess.PIPE, stderr=subprocess.STDOUT, input=stdin)
        out = p.stdout.decode("utf-8", "replace")
        rc = p.returncode
    except subprocess.TimeoutExpired as ex:
        out = (ex.stdout or b"").decode("utf-8", "replace") + "\n[TIMEOUT after %ss]" % timeout
        rc = 124
    if check and rc != 0:
        raise Broken("command failed rc=%s: %s\n%s" % (rc, cmd, out[-3000:]))
    return rc, out, time.time() - t0


def rundir(tag):
    d = os.path.join(RUN, "%s.%d.%d" % (tag, os.getpid(), threading.get_ident() % 100000))
    shutil.rmtree(d, ignore_errors=True)
    os.makedirs(d, exist_ok=True)
    return d


def cleanup(d):
    if os.environ.get("VP_KEEP"):
        return
    shutil.rmtree(d, ignore_errors=True)


# ------------------------------------------------------------------------------------------
# Build: library sources are compiled straight from /repo's working tree, every time.

LIB_INC = ["Lib", "Lib/utils", "Lib/core", "Lib/core/public", "Lib/structs/public", "Lib/mem/public",
           "Lib/thpool/public", "Lib/core/poll", "Lib/core/fs", "Lib/structs", "Lib/mem", "Lib/thpool"]

LIB_GROUPS = {
    "utils": (["Lib/utils/log.c", "Lib/utils/mem.c", "Lib/utils/utils.c"], "OTHER"),
    "mem": (["Lib/mem/mem.c"], "MEM"),
    "structs": (["Lib/structs/queue.c", "Lib/structs/stack.c", "Lib/structs/list.c", "Lib/structs/bst.c",
                 "Lib/structs/map.c"], "STRUCTS"),
    "thpool": (["Lib/thpool/thpool.c"], "THPOOL"),
    "core": (["Lib/core/ctx.c", "Lib/core/mod.c", "Lib/core/ps.c", "Lib/core/evts.c", "Lib/core/src.c",
              "Lib/core/main.c", "Lib/core/poll/epoll.c", "Lib/core/poll/cmn_linux.c",
              "Lib/core/fs/fs_noop.c"], "CORE"),
}

SAN = {
    "asan": ["-fsanitize=address,undefined", "-fno-sanitize-recover=undefined", "-fno-omit-frame-pointer"],
    "tsan": ["-fsanitize=thread", "-fno-omit-frame-pointer"],
    "none": [],
}


def build(name, groups, harness_srcs, san="asan", extra_cflags=(), extra_ldflags=(), per_file_flags=None,
          opt="-O1"):
    """Compile library groups from REPO + harness sources into BUILD/name/name. Returns exe path."""
    out = os.path.join(BUILD, "%s.%d" % (name, os.getpid()))      # per process: concurrent checks never share build products
    shutil.rmtree(out, ignore_errors=True)
    os.makedirs(out)
    atexit.register(lambda d=out: shutil.rmtree(d, ignore_errors=True) if not os.environ.get("VP_KEEP") else None)
    inc = []
    for i in LIB_INC:
        inc += ["-I", os.path.join(REPO, i)]
    inc += ["-I", HARN]
    common = ["clang", "-std=gnu11", "-g", opt, "-D_GNU_SOURCE", "-D" + GUARD, "-w"] + SAN[san] + list(extra_cflags)
    jobs = []
    objs = []
    for g in groups:
        srcs, logctx = LIB_GROUPS[g]
        for s in srcs:
            o = os.path.join(out, s.replace("/", "_") + ".o")
            fl = list((per_file_flags or {}).get(s, []))
            jobs.append(common + ["-DLIBMODULE_LOG_CTX=" + logctx] + inc + fl + ["-c", os.path.join(REPO, s), "-o", o])
            objs.append(o)
    for s in harness_srcs:
        p = s if os.path.isabs(s) else os.path.join(HARN, s)
        o = os.path.join(out, "h_" + os.path.basename(s) + ".o")
        jobs.append(common + inc + ["-c", p, "-o", o])
        objs.append(o)
    procs = [(j, subprocess.Popen(j, stdout=subprocess.PIPE, stderr=subprocess.STDOUT)) for j in jobs]
    for j, p in procs:
        o, _ = p.communicate()
        if p.returncode != 0:
            raise Broken("compile failed: %s\n%s" % (" ".join(j), o.decode()[-4000:]))
    exe = os.path.join(out, name)
    link = ["clang"] + SAN[san] + objs + ["-o", exe, "-lpthread", "-ldl", "-lm"] + list(extra_ldflags)
    rc, o, _ = sh(link, timeout=300)
    if rc != 0:
        raise Broken("link failed: %s\n%s" % (" ".join(link), o[-4000:]))
    return exe


# ------------------------------------------------------------------------------------------
# TLC

def tlc(spec, cfg, workers=8, dump=None, simulate=None, depth=None, timeout=900, metadir=None, extra=(),
        env=None, heap="8g", coverage=False, cwd=None, seed=None, deadlock=None, simfile=None):
    """Run TLC; returns dict(rc, out, generated, distinct, depth, wall, violated, coverage)."""
    md = metadir or rundir("tlcmeta")
    cmd = ["java", "-XX:+UseParallelGC", "-Xmx" + heap, "-cp", TLA_JAR + ":/opt/veriftools/tla/CommunityModules-deps.jar",
           "tlc2.TLC"]
    # use the wrapper if available (sets classpath incl. CommunityModules)
    cmd = ["tlc"]
    cmd += ["-workers", str(workers), "-metadir", md, "-noGenerateSpecTE", "-config", cfg]
    if dump:
        cmd += ["-dump", "dot,actionlabels", dump]
    if simulate:
        cmd += ["-simulate", ("file=%s," % simfile if simfile else "") + "num=%d" % simulate]
        if depth:
            cmd += ["-depth", str(depth)]
    if seed is not None:
        cmd += ["-seed", str(seed)]
    if coverage:
        cmd += ["-coverage", "1"]
    if deadlock is False:
        pass
    cmd += list(extra) + [spec]
    e = {"JAVA_TOOL_OPTIONS": "-Xmx" + heap}
    if env:
        e.update(env)
    rc, out, wall = sh(cmd, timeout=timeout, cwd=cwd or SPEC, env=e)
    if not metadir:
        cleanup(md)
    res = {"rc": rc, "out": out, "wall": wall, "cmd": " ".join(cmd)}
    m = re.search(r"(\d+) states generated, (\d+) distinct states found", out)
    res["generated"] = int(m.group(1)) if m else 0
    res["distinct"] = int(m.group(2)) if m else 0
    m = re.search(r"depth of the complete state graph search is (\d+)", out)
    res["depth"] = int(m.group(1)) if m else 0
    res["violated"] = None
    m = re.search(r"Error: Invariant (\S+) is violated", out)
    if m:
        res["violated"] = m.group(1)
    m = re.search(r"Error: Action property (\S+) is violated", out)
    if m:
        res["violated"] = m.group(1)
    if "Error: Temporal properties were violated" in out:
        res["violated"] = "temporal"
    if "Error: Deadlock reached" in out:
        res["violated"] = "deadlock"
    res["ok"] = (rc == 0 and "No error has been found" in out) or (simulate and rc in (0,) )
    if coverage:
        res["coverage"] = parse_coverage(out)
    return res


def parse_coverage(out):
    """-coverage 1 prints '<Action line.. of module M>: taken:generated'. Return {name: (taken, generated)}."""
    cov = {}
    for m in re.finditer(r"^<(\w+) line \d+, col \d+ to line \d+, col \d+ of module (\w+)>: (\d+):(\d+)", out, re.M):
        name = m.group(1)
        t, g = int(m.group(3)), int(m.group(4))
        a = cov.get(name, (0, 0))
        cov[name] = (max(a[0], t), max(a[1], g))   # the final report repeats; keep the last/maximum
    return cov


def tlc_require_ok(res, what):
    if res["rc"] == 124:
        raise Broken("TLC timeout: " + what)
    if res["violated"]:
        return
    if not res["ok"]:
        raise Broken("TLC failed (%s) rc=%s:\n%s" % (what, res["rc"], res["out"][-3000:]))


# ------------------------------------------------------------------------------------------
# TLA+ value parser (for dot node labels)

_tok = re.compile(r"\s*(<<|>>|\|->|:>|@@|/\\|[\[\]\{\}\(\),=]|\"(?:[^\"\\]|\\.)*\"|-?\d+|[A-Za-z_][A-Za-z0-9_!]*)")


def _tokens(s):
    pos = 0
    out = []
    n = len(s)
    while pos < n:
        m = _tok.match(s, pos)
        if not m:
            if s[pos:].strip() == "":
                break
            raise ValueError("cannot tokenize at %r" % s[pos:pos + 40])
        out.append(m.group(1))
        pos = m.end()
    return out


class _P:
    def __init__(self, toks):
        self.t = toks
        self.i = 0

    def peek(self):
        return self.t[self.i] if self.i < len(self.t) else None

    def eat(self, x=None):
        v = self.t[self.i]
        if x is not None and v != x:
            raise ValueError("expected %s got %s at %d" % (x, v, self.i))
        self.i += 1
        return v

    def value(self):
        t = self.peek()
        if t == "<<":
            self.eat()
            xs = []
            while self.peek() != ">>":
                xs.append(self.value())
                if self.peek() == ",":
                    self.eat()
            self.eat(">>")
            return xs
        if t == "{":
            self.eat()
            xs = []
            while self.peek() != "}":
                xs.append(self.value())
                if self.peek() == ",":
                    self.eat()
            self.eat("}")
            return {"__set__": xs}
        if t == "[":
            self.eat()
            d = {}
            while self.peek() != "]":
                k = self.eat()
                self.eat("|->")
                d[k] = self.value()
                if self.peek() == ",":
                    self.eat()
            self.eat("]")
            return d
        if t == "(":
            self.eat()
            d = {}
            while self.peek() != ")":
                k = self.value()
                self.eat(":>")
                v = self.value()
                d[k if not isinstance(k, list) else tuple(k)] = v
                if self.peek() == "@@":
                    self.eat()
            self.eat(")")
            return {"__fn__": d}
        self.eat()
        if t.startswith('"'):
            return t[1:-1]
        if re.fullmatch(r"-?\d+", t):
            return int(t)
        if t == "TRUE":
            return True
        if t == "FALSE":
            return False
        return t  # model value / identifier


def parse_state_label(label):
    """'/\\ a = 1\n/\\ b = <<>>' -> {a: 1, b: []}"""
    toks = _tokens(label)
    p = _P(toks)
    st = {}
    while p.peek() is not None:
        if p.peek() == "/\\":
            p.eat()
        name = p.eat()
        p.eat("=")
        st[name] = p.value()
    return st


_node = re.compile(r'^(-?\d+) \[label="((?:[^"\\]|\\.)*)"')
_edge = re.compile(r'^(-?\d+) -> (-?\d+) \[label="((?:[^"\\]|\\.)*)"')


def parse_dot(path, max_states=400000):
    """Returns (states: {id: dict}, edges: [(src, dst, label)], inits: [id])."""
    states, edges, inits = {}, [], []
    with open(path) as f:
        for line in f:
            m = _edge.match(line)
            if m:
                edges.append((m.group(1), m.group(2), m.group(3).replace('\\"', '"').replace("\\\\", "\\")))
                continue
            m = _node.match(line)
            if m:
                sid = m.group(1)
                if sid in states:
                    continue
                lab = m.group(2).replace("\\n", "\n").replace('\\"', '"').replace("\\\\", "\\")
                states[sid] = parse_state_label(lab)
                if "style = filled" in line:
                    inits.append(sid)
                if len(states) > max_states:
                    raise Broken("graph too large to dump (> %d states)" % max_states)
    return states, edges, inits


_lab = re.compile(r"^(\w+)(?:\((.*)\))?$")


def parse_action_label(label):
    """'Enq(1, "a")' -> ('Enq', [1, 'a'])"""
    m = _lab.match(label.strip())
    if not m:
        return label, []
    name, args = m.group(1), m.group(2)
    if not args:
        return name, []
    p = _P(_tokens(args))
    xs = []
    while p.peek() is not None:
        xs.append(p.value())
        if p.peek() == ",":
            p.eat()
    return name, xs


def write_table(path, states, edges, inits, canon):
    """Graph table for the C walkers.
    canon(state_dict) -> (obs_string, proj_string); no whitespace inside either.
    Lines:  H nstates nedges ninit / I idx / S idx obs proj / E src dst Act nargs a1 a2 ...
    Edge args must be ints or bare tokens."""
    idx = {}
    for k in states:
        idx[k] = len(idx)
    with open(path, "w") as f:
        f.write("H %d %d %d\n" % (len(states), len(edges), len(inits)))
        for i in inits:
            f.write("I %d\n" % idx[i])
        for k, st in states.items():
            o, p = canon(st)
            f.write("S %d %s %s\n" % (idx[k], o or "-", p or "-"))
        for (s, d, lab) in edges:
            name, args = parse_action_label(lab)
            f.write("E %d %d %s %d %s\n" % (idx[s], idx[d], name, len(args), " ".join(_argtok(a) for a in args)))
    return len(states), len(edges)


def _argtok(a):
    if a is True:
        return "1"
    if a is False:
        return "0"
    if isinstance(a, int):
        return str(a)
    if isinstance(a, str):
        return a if a else "_"
    if isinstance(a, list):
        return "[" + ";".join(_argtok(x) for x in a) + "]"
    if isinstance(a, dict) and "__set__" not in a and "__fn__" not in a:
        return "(" + ";".join("%s=%s" % (k, _argtok(v)) for k, v in sorted(a.items())) + ")"
    if isinstance(a, dict) and "__set__" in a:
        return "{" + ";".join(sorted(_argtok(x) for x in a["__set__"])) + "}"
    raise ValueError("unsupported edge arg %r" % (a,))


def ints(xs):
    return ",".join(str(int(x)) if not isinstance(x, bool) else ("1" if x else "0") for x in xs) or "_"


# ------------------------------------------------------------------------------------------
# Behaviours sampled by TLC's simulation mode (configurations too large to enumerate)

_simhdr = re.compile(r"^\\\* <(.*) line \d+, col \d+ to line \d+, col \d+ of module \w+>\s*$")


def parse_sim_traces(paths, max_states=600000):
    """TLC '-simulate file=prefix' writes one TLA+ module per behaviour: '\\* <Action(args) line ..>' then 'STATE_n ==' and the
    state.  Returns (states {id: dict}, edges [(src, dst, label)], inits [id], programs [[(label, state reached), ...]]); equal
    states are merged."""
    states, edges, inits, progs = {}, [], [], []
    ids = {}
    seen_edges = set()
    for path in paths:
        txt = open(path).read()
        chunks = re.split(r"^STATE_\d+ ==\s*$", txt, flags=re.M)
        hdrs = []
        # the header of state k is the last comment line of chunk k-1
        for c in chunks[:-1]:
            h = [l for l in c.splitlines() if l.startswith("\\* <")]
            hdrs.append(h[-1] if h else "")
        prev = None
        prog = []
        for k, body in enumerate(chunks[1:]):
            body = body.split("\n\\* <")[0]
            body = body.split("\n====")[0].strip()
            sid = ids.get(body)
            if sid is None:
                sid = str(len(ids))
                ids[body] = sid
                states[sid] = parse_state_label(body)
                if len(states) > max_states:
                    raise Broken("too many sampled states")
            m = _simhdr.match(hdrs[k].strip())
            lab = m.group(1) if m else ""
            if k == 0:
                if sid not in inits:
                    inits.append(sid)
            else:
                name, args = parse_action_label(lab)
                canon = "%s(%s)" % (name, ",".join(_argtok(a) for a in args))
                if (prev, canon) not in seen_edges:
                    seen_edges.add((prev, canon))
                    edges.append((prev, sid, lab))
                prog.append((canon, sid))
            prev = sid
        if prog:
            progs.append(prog)
    return states, edges, inits, progs


# ------------------------------------------------------------------------------------------
# Known findings, reporting, evidence

def load_findings():
    """KNOWN_FINDINGS.txt lines:
         known: property=<id> sig=<signature> :: <what fails>
         fixed: property=<id> <commit> <what failed>
       Returns {property: [(sig, text)]} for 'known' lines only ('fixed' suppresses nothing)."""
    res = {}
    p = os.path.join(VERIF, "KNOWN_FINDINGS.txt")
    if not os.path.exists(p):
        return res
    for line in open(p):
        line = line.strip()
        m = re.match(r"known:\s+property=(\S+)\s+sig=(\S+)\s*::\s*(.*)$", line)
        if m:
            res.setdefault(m.group(1), []).append((m.group(2), m.group(3)))
    return res


class Result:
    """Collects outcome of one check invocation and renders verdict + evidence."""

    def __init__(self, prop, tier, seed, level="model_checking"):
        self.prop, self.tier, self.seed, self.level = prop, tier, seed, level
        self.t0 = time.time()
        self.states = 0
        self.transitions = 0
        self.traces = 0
        self.evaluations = 0
        self.distinct_nontrivial = 0
        self.samples = []
        self.cmds = []
        self.assumptions = []
        self.extra = {}
        self.exhaustive = True
        self.mismatches = []   # (sig, replay_path, text)
        self.rule = ""
        self.known = load_findings().get(prop, [])
        self.known_hit = {}
        self.lock = threading.RLock()

    def add_tlc(self, res, what):
      with self.lock:
        self.states += res["distinct"]
        self.transitions += res["generated"]
        self.cmds.append(res["cmd"])
        self.extra.setdefault("tlc_runs", []).append(
            {"what": what, "distinct": res["distinct"], "generated": res["generated"], "depth": res["depth"],
             "wall_s": round(res["wall"], 1)})

    def mismatch(self, sig, replay, text=""):
      with self.lock:
        for ksig, ktext in self.known:
            if sig == ksig or (ksig.endswith("*") and sig.startswith(ksig[:-1])):
                self.known_hit.setdefault(ksig, [ktext, 0])
                self.known_hit[ksig][1] += 1
                return
        self.mismatches.append((sig, replay, text))

    def finish(self):
        os.makedirs(EVID, exist_ok=True)
        viol = len(self.mismatches)
        cov = {
            "states": self.states, "transitions": self.transitions,
            "traces_validated_against_impl": self.traces,
            "evaluations": self.evaluations, "distinct_nontrivial": self.distinct_nontrivial,
            "rule": self.rule, "samples": self.samples[:6] or ["(none)"],
            "checker_cmd": " ; ".join(self.cmds)[:4000],
            "exhaustive": bool(self.exhaustive),
            "known_findings_hit": {k: v[1] for k, v in self.known_hit.items()},
        }
        cov.update(self.extra)
        ev = {"property_id": self.prop, "tier": self.tier, "seed": int(self.seed), "level": self.level,
              "coverage": cov, "assumptions": self.assumptions, "wall_s": round(time.time() - self.t0, 2),
              "violations": viol}
        with open(os.path.join(EVID, self.prop + ".json"), "w") as f:
            json.dump(ev, f, indent=1, sort_keys=True)
        for ksig, (ktext, n) in sorted(self.known_hit.items()):
            print("KNOWN-FINDING: property=%s %s [sig=%s, hit %d times]" % (self.prop, ktext, ksig, n))
        seen = set()
        for sig, replay, text in self.mismatches:
            if sig in seen:
                continue
            seen.add(sig)
            print("VIOLATION property=%s replay=%s  (%s %s)" % (self.prop, replay, sig, text))
        sys.stdout.flush()
        return EXIT_VIOLATION if viol else EXIT_OK


def parallel(tasks, max_workers=4):
    """Run zero-arg callables concurrently; re-raise the first exception (Broken wins)."""
    if not tasks:
        return []
    with ThreadPoolExecutor(max_workers=max_workers) as ex:
        futs = [ex.submit(t) for t in tasks]
        res, err = [], None
        for f in futs:
            try:
                res.append(f.result())
            except Exception as e:      # noqa
                err = err or e
                res.append(None)
        if err:
            raise err
        return res


_rd_lock = threading.Lock()
_rd_n = [0]


def replay_path(prop, tag):
    d = os.path.join(VERIF, "replays")
    os.makedirs(d, exist_ok=True)
    return os.path.join(d, "%s.%s.txt" % (prop, re.sub(r"[^A-Za-z0-9_.-]", "_", tag)[:80]))


def seed_from_env():
    try:
        return int(os.environ.get("VERIF_SEED", "1"))
    except ValueError:
        return 1
