#!/usr/bin/env python3
# Regenerates MANIFEST.json from the table below (keeps it schema-valid at all times).
import json, os
V = os.path.dirname(os.path.dirname(os.path.abspath(__file__)))
ALL = ["C%02d" % i for i in range(1, 21)]
TECH = "TLA+ spec checked by TLC (bounded exhaustive) + replay of the dumped TLC state graph into the real code + TLC trace validation"
CLAIMS = {
 "C12": dict(engine="seqs", design="4/C12, 3.2",
   text="Seqs.tla (queue/stack/list as one abstract sequence machine with iterator cursor) is model-checked exhaustively by TLC on bounded configs (3 elements, length<=3, destructor on/off, comparator on/off) against the C12 monitors; the dumped state graph is then replayed into the real containers built from /repo (all paths up to depth D, an edge cover, seeded random walks) comparing return values, full contents, length, iterator liveness and destructor counts after every step, under ASan/UBSan and an allocator ledger.",
   note="Bounded: 3 elements / length 3; longer histories only by random walks. Precondition: no mutation behind a live iterator. Trusted: TLC, the dot-graph parser, the driver's projection code."),
}
NOT_YET = "not yet covered in this round of construction; planned with the same technique (see DESIGN.md section 4)"
def main():
    checks = []
    for p in ALL:
        if p not in CLAIMS: continue
        c = CLAIMS[p]
        checks.append({
          "property_id": p,
          "quick_cmd": "tools/check %s quick" % p,
          "thorough_cmd": "tools/check %s thorough" % p,
          "evidence_file": "/verif/evidence/%s.json" % p,
          "replay_cmd_template": "tools/check %s --replay {path}" % p,
          "engine": c["engine"],
          "level_claimed": {"category": "model_checking", "text": c["text"], "design_ref": "DESIGN.md section " + c["design"]},
          "level_note": c["note"],
          "technique": c.get("technique", TECH),
        })
    m = {
      "version": 1,
      "setup_cmd": "tools/setup.sh",
      "hooks": {"guard": "LIBMODULE_VERIF",
                "enable": "checks compile /repo/Lib sources directly with clang -DLIBMODULE_VERIF (tools/vplib.py:build); no source hooks are required so far",
                "baseline_off_cmd": "cmake --build /repo/_build && ctest --test-dir /repo/_build -j8 --timeout 900",
                "source_commits": [], "add_only": True},
      "engines": [
        {"name": "seqs", "path": "spec/Seqs.tla harness/drv_seqs.c", "serves_properties": ["C12"], "kind_free_text": "TLC + graph replay"},
      ],
      "checks": checks,
      "not_applicable": [{"property_id": p, "reason": NOT_YET} for p in ALL if p not in CLAIMS],
      "notes": "All checks: tools/check <ID> quick|thorough. Exit 0 ok, 1 VIOLATION, 3 broken check. See DESIGN.md.",
    }
    json.dump(m, open(os.path.join(V, "MANIFEST.json"), "w"), indent=1)
if __name__ == "__main__": main()
