#!/usr/bin/env python3
# Regenerates MANIFEST.json from the table below (keeps it schema-valid at all times).
import json, os
V = os.path.dirname(os.path.dirname(os.path.abspath(__file__)))
ALL = ["C%02d" % i for i in range(1, 21)]
TECH = "TLA+ spec checked by TLC (bounded exhaustive) + replay of the dumped TLC state graph into the real code + TLC trace validation"
CLAIMS = {
 "C01": dict(engine="core", design="4, 3.6",
   text='Core.tla models the context/module machine as coded (start/stop/deregister/evaluation-pass/loop start/stop/flush as continuation frames, callbacks as explicit frames so that every public call can be made re-entrantly from inside every callback kind); TLC checks the C01 monitors (running count, handlers only for RUNNING modules, legal states) exhaustively on bounded configs; the dumped graph is replayed into the real library: all paths up to depth D, an edge cover and random walks, each completed to a clean state, comparing after every call and at every callback entry: module states, registered count, running_modules, which callback (module, kind) the library enters and in which order, return codes, allocator and descriptor ledgers.',
   note='Bounded: 2-3 modules, <=2 payloads in flight, mailbox capacity 2-3, callback nesting <=2; one context per thread. Poll batches are chosen by the program through a wrapped epoll_wait (the really-ready set is compared). Trusted: TLC, dot parser, driver projection, a few white-box reads (running_modules, quit flag, mailbox descriptor, poll-source owner).'),
 "C02": dict(engine="core", design="4, 3.6",
   text='Same Core.tla, pub/sub configurations (tell/publish/broadcast/poison pill, literal + regex subscriptions, auto-free payloads, recipients paused/stopped/deregistered with messages in flight, mailbox overflow, quit + final flush): TLC checks copy accounting and the auto-free-exactly-once monitor; replay compares mailbox lengths, the exact events handed to each handler invocation (payload identity, sender, topic, system flag), and when the library releases each payload (allocator ledger).',
   note='Bounded: 2-3 modules, <=2 payloads in flight, mailbox capacity 2-3, callback nesting <=2; one context per thread. Poll batches are chosen by the program through a wrapped epoll_wait (the really-ready set is compared). Trusted: TLC, dot parser, driver projection, a few white-box reads (running_modules, quit flag, mailbox descriptor, poll-source owner).'),
 "C07": dict(engine="core", design="4, 3.6",
   text="Same Core.tla, context configurations (persistent / non-persistent; register, deregister, finalize, dispatch-driven loop and quit from the top level and from callbacks): TLC checks 'no registered module without a context' and the running count; replay compares context state, registered count, stop-callback order during teardown, zombie states of retained references, and that nothing is left in allocator/descriptor ledgers once the context is released and references dropped.",
   note='Bounded: 2-3 modules, <=2 payloads in flight, mailbox capacity 2-3, callback nesting <=2; one context per thread. Poll batches are chosen by the program through a wrapped epoll_wait (the really-ready set is compared). Trusted: TLC, dot parser, driver projection, a few white-box reads (running_modules, quit flag, mailbox descriptor, poll-source owner).'),
 "C08": dict(engine="core", design="4, 3.6",
   text="Same Core.tla: each mailbox is a FIFO, one message is read per poll event, the final flush drains in order and a poison pill splits the mailbox; configurations with two payloads in flight to one recipient, pills before/after tells, pause/resume, quit + flush; replay compares the sequence of events of every handler invocation with the spec's.",
   note='Bounded: 2-3 modules, <=2 payloads in flight, mailbox capacity 2-3, callback nesting <=2; one context per thread. Poll batches are chosen by the program through a wrapped epoll_wait (the really-ready set is compared). Trusted: TLC, dot parser, driver projection, a few white-box reads (running_modules, quit flag, mailbox descriptor, poll-source owner).'),
 "C15": dict(engine="core", design="4, 3.6",
   text='Same Core.tla with module flags: duplicate names (EEXIST), replacement (old module deregistered first), persistent modules while looping, deny-publish / deny-subscribe / deny-context (innermost executing callback) and the reserved topic prefix, with the restricted calls attempted from callbacks up to nesting depth 2; replay compares return codes and that refused calls change nothing observable.',
   note='Bounded: 2-3 modules, <=2 payloads in flight, mailbox capacity 2-3, callback nesting <=2; one context per thread. Poll batches are chosen by the program through a wrapped epoll_wait (the really-ready set is compared). Trusted: TLC, dot parser, driver projection, a few white-box reads (running_modules, quit flag, mailbox descriptor, poll-source owner).'),
 "C19": dict(engine="core", design="4, 3.6",
   text="Same Core.tla: loop-started/stopped and module-started/stopped notifications are generated by the modelled transitions and travel as ordinary mailbox messages to RUNNING/PAUSED subscribers; replay compares for every handler invocation the notifications received (topic, sender, system flag, no payload) one-to-one with the spec's.",
   note='Bounded: 2-3 modules, <=2 payloads in flight, mailbox capacity 2-3, callback nesting <=2; one context per thread. Poll batches are chosen by the program through a wrapped epoll_wait (the really-ready set is compared). Trusted: TLC, dot parser, driver projection, a few white-box reads (running_modules, quit flag, mailbox descriptor, poll-source owner).'),
 "C03": dict(engine="core", design="4, 3.6",
   text="Same Core.tla with descriptor and (virtual) timer sources next to pub/sub mailboxes: the poll batch (which ready sources, in which order, up to 2-3 per batch) is an argument of the dispatch step; one-shot sources, auto-close descriptors, timers expiring, errno values left behind by handlers, pause/stop/source deregistration from a handler of the same batch, quit and the final flush. Replay makes the wrapped epoll_wait return exactly the prescribed batch after checking that the really-ready set equals the spec's, and compares which handler runs with which events and userdata, the dispatch return values and the loop state.",
   note='Bounded: 2-3 modules, <=2 payloads in flight, mailbox capacity 2-3, callback nesting <=2; one context per thread. Poll batches are chosen by the program through a wrapped epoll_wait (the really-ready set is compared). Trusted: TLC, dot parser, driver projection, a few white-box reads (running_modules, quit flag, mailbox descriptor, poll-source owner).'),
 "C09": dict(engine="core", design="4, 3.6",
   text='Same Core.tla: each module holds a set of sources keyed by (kind, key) plus one subscription per pattern; register/deregister for descriptor, timer (periods 2^32 apart), signal, path, pid and threshold (pairs with equal sums) sources and subscriptions on a module in every state; TLC checks the keyed-set and dropped-on-stop monitors; replay compares return codes (EEXIST) and the per-kind and total counts reported by m_mod_src_len after every call.',
   note='Bounded: 2-3 modules, <=2 payloads in flight, mailbox capacity 2-3, callback nesting <=2; one context per thread. Poll batches are chosen by the program through a wrapped epoll_wait (the really-ready set is compared). Trusted: TLC, dot parser, driver projection, a few white-box reads (running_modules, quit flag, mailbox descriptor, poll-source owner).'),
 "C13": dict(engine="core", design="4, 3.6",
   text="Same Core.tla: push_evt() as coded (event joins the batch queue; high priority or normal-at-batch-size triggers one invocation with the whole queue; low priority never triggers); subscriptions with low/normal/high priority, batch sizes, stop, quit + final flush; replay compares every invocation's event list and the batch-queue length after every step.",
   note='Bounded: 2-3 modules, <=2 payloads in flight, mailbox capacity 2-3, callback nesting <=2; one context per thread. Poll batches are chosen by the program through a wrapped epoll_wait (the really-ready set is compared). Trusted: TLC, dot parser, driver projection, a few white-box reads (running_modules, quit flag, mailbox descriptor, poll-source owner).'),
 "C16": dict(engine="core", design="4, 3.6",
   text='Same Core.tla: stash inside handlers (refused for high priority / not RUNNING), unstash(n) for n = 1, 2, SIZE_MAX from the top level and from handlers (one invocation of the current handler with the min(n, stashed) oldest events, returns that number), discarded on stop; replay compares invocations, return values and the stash length.',
   note='Bounded: 2-3 modules, <=2 payloads in flight, mailbox capacity 2-3, callback nesting <=2; one context per thread. Poll batches are chosen by the program through a wrapped epoll_wait (the really-ready set is compared). Trusted: TLC, dot parser, driver projection, a few white-box reads (running_modules, quit flag, mailbox descriptor, poll-source owner).'),
 "C17": dict(engine="core", design="4, 3.6",
   text='Same Core.tla: handler stack per module (become/unbecome from outside and inside handlers, refused unless RUNNING, emptied on stop); replay uses distinguishable handler functions and compares which one receives every invocation (deliveries, unstash replays).',
   note='Bounded: 2-3 modules, <=2 payloads in flight, mailbox capacity 2-3, callback nesting <=2; one context per thread. Poll batches are chosen by the program through a wrapped epoll_wait (the really-ready set is compared). Trusted: TLC, dot parser, driver projection, a few white-box reads (running_modules, quit flag, mailbox descriptor, poll-source owner).'),
 "C20": dict(engine="core", design="4, 3.6",
   text='Same Core.tla with a ledger of user descriptors (open / closed by auto-close, deferred while an event still references the source) and, on the implementation side, a ledger of every descriptor the library opens (pipe, epoll handle, virtual timerfd) through wrapped pipe/epoll_create1/timerfd_create/close: replay requires user descriptors to be closed exactly when the spec says, failing close() calls (double close) to be absent, and no library descriptor to be open in clean states.',
   note='Bounded: 2-3 modules, <=2 payloads in flight, mailbox capacity 2-3, callback nesting <=2; one context per thread. Poll batches are chosen by the program through a wrapped epoll_wait (the really-ready set is compared). Trusted: TLC, dot parser, driver projection, a few white-box reads (running_modules, quit flag, mailbox descriptor, poll-source owner).'),
 "C18": dict(engine="core", design="4, 3.6",
   text='Same Core.tla with a token bucket per module: every rate-limited public call needs and takes one token (a start two: the call and its internal mailbox registration), fails with EAGAIN and no effect without one; the refill timer (virtual time: it expires when the program says so) adds one token up to the burst while the module is RUNNING; rate 0 and stop remove the limit. TLC checks tokens <= burst and the per-step accounting; replay compares the token count (and EAGAIN vs success) after every call for buckets (r,0), (r,1), (r,2).',
   note='Bounded: 2-3 modules, <=2 payloads in flight, mailbox capacity 2-3, callback nesting <=2; one context per thread. Poll batches are chosen by the program through a wrapped epoll_wait (the really-ready set is compared). Trusted: TLC, dot parser, driver projection, a few white-box reads (running_modules, quit flag, mailbox descriptor, poll-source owner).'),
 "C05": dict(engine="structs", design="4/C05, 3.4",
   text="MapAbs.tla (dictionary with nondeterministic iteration order, key-copy ledger, destructor fates) is model-checked exhaustively by TLC on bounded configs (3 keys x 3 values, all flag combinations); its dumped state graph is replayed into the real map with plain keys, keys sharing one home slot and three key sets whose chains wrap around the end of the 256-slot table (all paths up to D mutating steps with all queries at every node, edge cover, random walks), comparing return values, full contents, length, iterator position, destructor counts and the allocator ledger (private key copies) after every step.",
   note="Bounded: 3 keys/3 values in E1/E2. Iteration order is followed by observation. Trusted: TLC, dot parser, driver projection, a copy of the public hash used only to search adversarial keys."),
 "C06": dict(engine="thpool", design="4/C06, 3.5",
   text="Thpool.tla models thpool.c at pthread-operation granularity (main/new/free, N submitters, up to M workers; lock, condition wait/signal/broadcast incl. spurious wake-ups, create, join, destroy) for eager/lazy x joinable/detached x wait-all/wait-current pools; TLC checks exhaustively, per bounded (threads, tasks, submitters) configuration: exactly-once execution, bounded parallelism, free semantics, nothing runs after free, no pool thread alive after the pool is freed, destroy discipline, deadlock freedom, and termination under per-thread fairness. Complete schedules of the dumped graph are then executed on the real thpool.c under a cooperative scheduler substituted for pthread_* (no source change): the thread named by each spec step is released and its announced operation plus the projection (lock holder, every thread's pending operation, task states, pool freed) is compared with the spec state after every step, with ASan/UBSan and the allocator ledger attached.",
   note="Bounded: <=3 workers, <=3 tasks, <=2 submitters. pthread primitives are virtualised (their semantics is the spec's); memory-level data races are outside this controlled replay. Precondition: free is called after all submitters returned."),
 "C10": dict(engine="structs", design="4/C10, 3.1",
   text="Mem.tla (population of ref-counted blocks with nested destructors, per-step destructor/free event log) is model-checked by TLC; the dumped graph is replayed into m_mem_* (all paths, edge cover, walks) comparing return values, the order of destructor/free events seen by the allocator ledger, reported size, pointer alignment and content integrity; a recorded trace covering every size 0..N (all residues mod 16) and a random 8-block population is validated by TLC against MemTrace.tla.",
   note="Bounded: 3 blocks / 3 refs in E1/E2; sizes beyond by trace validation. Precondition: references dropped by their owner only."),
 "C11": dict(engine="structs", design="4/C11, 3.3",
   text="Bst.tla (ordered set by comparator key, ascending iterator, destructor fates; tree shape deliberately unmodelled) is model-checked by TLC; its dumped graph (5 elements: all insertion orders and removal orders are paths) is replayed into m_bst_* with a user comparator having equal keys and with the default comparator on addresses 2^31 and 2^32 apart, comparing return values, in-order content, length, iterator element, pre/post-order consistency with one BST, destructor target identity and the allocator ledger after every step.",
   note="Bounded: 5 elements. Precondition: no mutation behind a live iterator."),
 "C12": dict(engine="structs", design="4/C12, 3.2",
   text="Seqs.tla (queue/stack/list as one abstract sequence machine with iterator cursor) is model-checked exhaustively by TLC on bounded configs (3 elements, length<=3, destructor on/off, comparator on/off) against the C12 monitors; the dumped state graph is then replayed into the real containers built from /repo (all paths up to depth D, an edge cover, seeded random walks) comparing return values, full contents, length, iterator liveness and destructor counts after every step, under ASan/UBSan and an allocator ledger.",
   note="Bounded: 3 elements / length 3; longer histories only by random walks. Precondition: no mutation behind a live iterator. Trusted: TLC, the dot-graph parser, the driver's projection code."),
}
NOT_YET = "not yet covered in this round of construction; planned with the same technique (see DESIGN.md section 4)"
def main():
    checks = []
    for p in ALL:
        if p not in CLAIMS: continue
        c = CLAIMS[p]
        checks.append({
          "property_id": p,
          "quick_cmd": "tools/check %s quick" % p,
          "thorough_cmd": "tools/check %s thorough" % p,
          "evidence_file": "/verif/evidence/%s.json" % p,
          "replay_cmd_template": "tools/check %s --replay {path}" % p,
          "engine": c["engine"],
          "level_claimed": {"category": "model_checking", "text": c["text"], "design_ref": "DESIGN.md section " + c["design"]},
          "level_note": c["note"],
          "technique": c.get("technique", TECH),
        })
    m = {
      "version": 1,
      "setup_cmd": "tools/setup.sh",
      "hooks": {"guard": "LIBMODULE_VERIF",
                "enable": "checks compile /repo/Lib sources directly with clang -DLIBMODULE_VERIF (tools/vplib.py:build); no source hooks are required so far",
                "baseline_off_cmd": "cmake --build /repo/_build && ctest --test-dir /repo/_build -j8 --timeout 900",
                "source_commits": [], "add_only": True},
      "engines": [
        {"name": "core", "path": "spec/Core.tla spec/CoreMC.tla spec/Core_mc_*.cfg harness/drv_core.c harness/gw.h", "serves_properties": ["C01", "C02", "C03", "C07", "C08", "C09", "C13", "C15", "C16", "C17", "C18", "C19", "C20"], "kind_free_text": "TLC bounded model checking of a functional model of the core + replay of the dumped graph (API calls from top level and from callbacks) into the real library with wrapped epoll_wait/write/pipe/close"},
        {"name": "thpool", "path": "spec/Thpool.tla spec/ThpoolMC.tla harness/vp_sched.h harness/drv_thpool.c", "serves_properties": ["C06"], "kind_free_text": "TLC (safety + liveness) + controlled-schedule replay of the dumped state graph on the real thpool.c"},
        {"name": "structs", "path": "spec/{Seqs,Bst,MapAbs,Mem,MemTrace}.tla harness/drv_{seqs,bst,map,mem}.c harness/gw.h", "serves_properties": ["C05", "C10", "C11", "C12"], "kind_free_text": "TLC bounded model checking + replay of the dumped state graph into the real code + TLC trace validation"},
      ],
      "checks": checks,
      "not_applicable": [{"property_id": p, "reason": NOT_YET} for p in ALL if p not in CLAIMS],
      "notes": "All checks: tools/check <ID> quick|thorough. Exit 0 ok, 1 VIOLATION, 3 broken check. See DESIGN.md.",
    }
    json.dump(m, open(os.path.join(V, "MANIFEST.json"), "w"), indent=1)
if __name__ == "__main__": main()
