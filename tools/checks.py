# Per-property check procedures.  Every procedure: E1 (TLC exhaustive on bounded configs, graph dumped),
# E2 (replay of the dumped graph through the real code), E3 (traces from the real code validated by TLC).
import json, os, re, sys
import vplib
from vplib import Broken, Result, log

REGISTRY = {}


def check(*props):
    def deco(fn):
        for p in props:
            REGISTRY[p] = fn
        return fn
    return deco


# ------------------------------------------------------------------------------------------
# generic E1+E2 pipeline

def run_driver(R, exe, args, env, timeout, tag):
    """Run a replay driver; digest MISMATCH / STATS / SAMPLE lines into R. Returns stats dict."""
    rc, out, wall = vplib.sh([exe] + [str(a) for a in args], timeout=timeout, env=env)
    stats = None
    for line in out.splitlines():
        if line.startswith("MISMATCH "):
            m = re.match(r"MISMATCH sig=(\S+) replay=(\S+) :: (.*)$", line)
            if m:
                R.mismatch(tag + ":" + m.group(1), m.group(2), m.group(3)[:300])
        elif line.startswith("STATS "):
            stats = json.loads(line[6:])
        elif line.startswith("SAMPLE "):
            if len(R.samples) < 8:
                R.samples.append({"config": tag, "program": line[7:][:600]})
    if rc == 124:
        raise Broken("driver timeout (%s): %s" % (tag, out[-1500:]))
    if stats is None:
        # crashed without the death callback producing stats: treat as a sanitizer-level event
        if "MISMATCH " in out:
            stats = {"programs": 0, "steps": 0, "distinct": 0, "nontrivial": 0, "paths_complete": False}
        else:
            raise Broken("driver died without report (%s) rc=%s:\n%s" % (tag, rc, out[-3000:]))
    if rc != 0 and not any(l.startswith("MISMATCH ") for l in out.splitlines()):
        raise Broken("driver exit rc=%s without mismatch (%s):\n%s" % (rc, tag, out[-3000:]))
    if rc != 0:
        R.extra.setdefault("driver_crash_output", out[-1500:])
    R.traces += stats.get("programs", 0)
    R.evaluations += stats.get("steps", 0)
    R.distinct_nontrivial += stats.get("nontrivial", 0)
    if not stats.get("paths_complete", True):
        R.exhaustive = False
    R.extra.setdefault("replay_runs", []).append(dict(stats, config=tag, wall_s=round(wall, 1)))
    return stats


def e1_dump(R, spec, cfg, tag, workers=8, timeout=900, expect_violation=None):
    """TLC exhaustive run with graph dump. Returns (states, edges, inits)."""
    d = vplib.rundir("e1." + tag)
    dot = os.path.join(d, "g.dot")
    res = vplib.tlc(spec, cfg, workers=workers, dump=dot, timeout=timeout, metadir=os.path.join(d, "md"))
    vplib.tlc_require_ok(res, tag)
    R.add_tlc(res, tag)
    if res["violated"]:
        # a monitor fails on the mechanism itself: design-level counterexample
        rp = vplib.replay_path(R.prop, tag + ".tlc")
        with open(rp, "w") as f:
            f.write(res["out"][-20000:])
        R.mismatch(tag + ":model-" + res["violated"], rp, "TLC: %s violated in the bounded model" % res["violated"])
        vplib.cleanup(d)
        return None
    g = vplib.parse_dot(dot)
    return d, g


def e1e2(R, spec, cfg, tag, canon, exe, env, D, budget, walks, L, seed, timeout=1500):
    r = e1_dump(R, spec, cfg, tag)
    if r is None:
        return
    d, (states, edges, inits) = r
    table = os.path.join(d, "graph.tab")
    vplib.write_table(table, states, edges, inits, canon)
    rdir = os.path.join(vplib.VERIF, "replays")
    os.makedirs(rdir, exist_ok=True)
    stats = run_driver(R, exe, [table, rdir, R.prop + "." + tag, D, budget, walks, L, seed], env, timeout, tag)
    vplib.cleanup(d)
    return stats


# ------------------------------------------------------------------------------------------
# C12 - queue / stack / list

def seqs_canon(st):
    items = st["items"]
    dead = [i + 1 for i, f in enumerate(st["fate"]) if f == "dead"]   # fate is a function over 1..N -> tuple
    proj = "%s|%d|%d|%s" % (vplib.ints(items), len(items), 1 if st["it"]["on"] else 0, vplib.ints(dead))
    return vplib.ints(st["obs"]), proj


@check("C12")
def c12(prop, tier, seed):
    R = Result(prop, tier, seed)
    exe = vplib.build("drv_seqs", ["utils", "structs"], ["drv_seqs.c"])
    quick = tier == "quick"
    variants = [("queue", "d", 1, 0), ("stack", "d", 1, 0), ("list", "dc", 1, 1), ("list", "dp", 1, 0),
                ("queue", "n", 0, 0), ("stack", "n", 0, 0), ("list", "nc", 0, 1), ("list", "np", 0, 0)]
    D = 6 if quick else 8
    budget = 400000 if quick else 30000000
    walks = 2000 if quick else 200000
    for kind, suf, dtor, cmp_ in variants:
        tag = "Seqs_%s_%s" % (kind, suf)
        env = {"VP_KIND": kind, "VP_DTOR": str(dtor), "VP_CMP": str(cmp_)}
        e1e2(R, "Seqs.tla", tag + ".cfg", tag, seqs_canon, exe, env, D, budget, walks, 24, seed)
    R.rule = ("programs = edge sequences of the dumped TLC graph of Seqs.tla: all maximal paths of length <= %d from the "
              "initial state (budget %d per config), an edge cover, and %d seeded random walks of length 24, per "
              "container kind x destructor x comparator; non-trivial = contains an iterator mutation "
              "(ItrRemove/ItrSet/ItrInsert) followed by a later non-iterator operation; distinct by action-label sequence"
              % (D, budget, walks))
    R.assumptions = ["containers are not mutated behind a live iterator's back (precondition)",
                     "elements are driver-owned objects; destructor = counter", "ASan/UBSan attached to every replay",
                     "bounds: 3 elements, length <= 3"]
    return R.finish()
