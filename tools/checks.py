# Per-property check procedures.  Every procedure: E1 (TLC exhaustive on bounded configs, graph dumped),
# E2 (replay of the dumped graph through the real code), E3 (traces from the real code validated by TLC).
import json, os, re, sys
import vplib
from vplib import Broken, Result, log

REGISTRY = {}


def check(*props):
    def deco(fn):
        for p in props:
            REGISTRY[p] = fn
        return fn
    return deco


# ------------------------------------------------------------------------------------------
# generic E1+E2 pipeline

def run_driver(R, exe, args, env, timeout, tag):
    """Run a replay driver; digest MISMATCH / STATS / SAMPLE lines into R. Returns stats dict."""
    rc, out, wall = vplib.sh([exe] + [str(a) for a in args], timeout=timeout, env=env)
    stats = None
    for line in out.splitlines():
        if line.startswith("MISMATCH "):
            m = re.match(r"MISMATCH sig=(\S+) replay=(\S+) :: (.*)$", line)
            if m:
                R.mismatch(tag + ":" + m.group(1), m.group(2), m.group(3)[:300])
        elif line.startswith("STATS "):
            stats = json.loads(line[6:])
        elif line.startswith("SAMPLE "):
            if len(R.samples) < 8:
                R.samples.append({"config": tag, "program": line[7:][:600]})
    if rc == 124:
        raise Broken("driver timeout (%s): %s" % (tag, out[-1500:]))
    if stats is None:
        # crashed without the death callback producing stats: treat as a sanitizer-level event
        if "MISMATCH " in out:
            stats = {"programs": 0, "steps": 0, "distinct": 0, "nontrivial": 0, "paths_complete": False}
        else:
            raise Broken("driver died without report (%s) rc=%s:\n%s" % (tag, rc, out[-3000:]))
    if rc != 0 and not any(l.startswith("MISMATCH ") for l in out.splitlines()):
        raise Broken("driver exit rc=%s without mismatch (%s):\n%s" % (rc, tag, out[-3000:]))
    if rc != 0:
        R.extra.setdefault("driver_crash_output", out[-1500:])
    with R.lock:
        R.traces += stats.get("programs", 0)
        R.evaluations += stats.get("steps", 0)
        R.distinct_nontrivial += stats.get("nontrivial", 0)
        if not stats.get("paths_complete", True):
            R.exhaustive = False
        R.extra.setdefault("replay_runs", []).append(dict(stats, config=tag, wall_s=round(wall, 1)))
    return stats


def e1_dump(R, spec, cfg, tag, workers=8, timeout=900):
    """TLC exhaustive run with graph dump. Returns (states, edges, inits)."""
    d = vplib.rundir("e1." + tag)
    dot = os.path.join(d, "g.dot")
    res = vplib.tlc(spec, cfg, workers=workers, dump=dot, timeout=timeout, metadir=os.path.join(d, "md"))
    vplib.tlc_require_ok(res, tag)
    R.add_tlc(res, tag)
    if res["violated"]:
        # a monitor fails on the mechanism itself: design-level counterexample
        rp = vplib.replay_path(R.prop, tag + ".tlc")
        with open(rp, "w") as f:
            f.write(res["out"][-20000:])
        R.mismatch(tag + ":model-" + res["violated"], rp, "TLC: %s violated in the bounded model" % res["violated"])
        vplib.cleanup(d)
        return None
    g = vplib.parse_dot(dot)
    return d, g


def e1e2(R, spec, cfg, tag, canon, exe, env, D, budget, walks, L, seed, timeout=1500, workers=8):
    r = e1_dump(R, spec, cfg, tag, workers=workers)
    if r is None:
        return
    d, (states, edges, inits) = r
    table = os.path.join(d, "graph.tab")
    vplib.write_table(table, states, edges, inits, canon)
    rdir = os.path.join(vplib.VERIF, "replays")
    os.makedirs(rdir, exist_ok=True)
    # the enumeration budgets are program counts; the driver also gets a wall-time budget well inside its timeout, so that a
    # deep (thorough) exploration ends as "incomplete" instead of breaking the check
    env = dict(env)
    env.setdefault("GW_WALL_S", str(int(timeout * 0.7)))
    stats = run_driver(R, exe, [table, rdir, R.prop + "." + tag, D, budget, walks, L, seed], env, timeout, tag)
    vplib.cleanup(d)
    return stats


def sim_e2(R, spec, cfg, tag, canon, exe, env, num, depth, seed, workers=4, timeout=900):
    """Constants too large to enumerate: TLC's simulation mode samples behaviours (monitors checked on every sampled state), each
    sampled behaviour is replayed into the real code."""
    import glob
    d = vplib.rundir("sim." + tag)
    res = vplib.tlc(spec, cfg, workers=workers, simulate=max(1, num // workers), depth=depth, timeout=timeout, seed=seed,
                    metadir=os.path.join(d, "md"), simfile=os.path.join(d, "t"))
    m = re.search(r"(\d+) states checked, (\d+) traces generated", res["out"])
    res["generated"] = int(m.group(1)) if m else 0
    res["distinct"] = 0
    if res["rc"] == 124:
        raise Broken("TLC simulation timeout: " + tag)
    if res["violated"]:
        rp = vplib.replay_path(R.prop, tag + ".tlc")
        open(rp, "w").write(res["out"][-20000:])
        R.add_tlc(res, tag)
        R.mismatch(tag + ":model-" + res["violated"], rp, "TLC (simulation): %s violated" % res["violated"])
        vplib.cleanup(d)
        return None
    if res["rc"] != 0:
        raise Broken("TLC simulation failed (%s) rc=%s:\n%s" % (tag, res["rc"], res["out"][-3000:]))
    states, edges, inits, progs = vplib.parse_sim_traces(sorted(glob.glob(os.path.join(d, "t_*"))))
    res["distinct"] = len(states)
    R.add_tlc(res, tag)
    table = os.path.join(d, "graph.tab")
    vplib.write_table(table, states, edges, inits, canon)
    pf = os.path.join(d, "progs.txt")
    with open(pf, "w") as f:
        for p in progs:
            f.write("\n".join(lab for lab, _ in p) + "\n--\n")
    e = dict(env, GW_PROGS=pf, GW_WALL_S=str(int(timeout * 0.7)))
    rdir = os.path.join(vplib.VERIF, "replays")
    os.makedirs(rdir, exist_ok=True)
    R.exhaustive = False
    stats = run_driver(R, exe, [table, rdir, R.prop + "." + tag, 0, 0, 0, 0, seed], e, timeout, tag)
    vplib.cleanup(d)
    return stats


def e3_validate(R, tracespec, cfg, trace, tag, timeout=900, heap="8g"):
    """TLC validates an ndjson trace recorded from the real code. Accepted iff the postcondition holds (every line
    consumed). On rejection the first unmatched line is reported with the matched prefix length."""
    n = sum(1 for _ in open(trace))
    d = vplib.rundir("e3." + tag)
    res = vplib.tlc(tracespec, cfg, workers=1, timeout=timeout, metadir=os.path.join(d, "md"), env={"TRACE": trace}, heap=heap)
    vplib.cleanup(d)
    R.cmds.append("TRACE=<%s, %d lines> %s" % (os.path.basename(trace), n, res["cmd"]))
    R.extra.setdefault("trace_runs", []).append({"what": tag, "lines": n, "matched": max(res["depth"] - 1, 0),
                                                 "wall_s": round(res["wall"], 1)})
    R.states += res["distinct"]
    R.transitions += res["generated"]
    if res["rc"] == 124:
        raise Broken("TLC timeout validating trace " + tag)
    out = res["out"]
    if res["violated"] and res["violated"] not in ("deadlock",):
        k = max(res["depth"] - 1, 0)
        rp = save_trace_reject(R, trace, tag, k, "monitor %s violated" % res["violated"])
        R.mismatch(tag + ":trace-monitor-" + res["violated"], rp, "monitor violated after %d trace lines" % k)
        return False
    if "Postcondition" in out and "is false" in out:
        k = max(res["depth"] - 1, 0)   # lines matched
        lines = open(trace).read().splitlines()
        bad = lines[k] if k < len(lines) else "<eof>"
        act = "?"
        try:
            act = json.loads(bad).get("a", "?")
        except Exception:
            pass
        rp = save_trace_reject(R, trace, tag, k, "no spec step explains line %d" % (k + 1))
        R.mismatch(tag + ":trace-reject-" + str(act), rp, "trace line %d not explained by the spec: %s" % (k + 1, bad[:200]))
        return False
    if not ("No error has been found" in out):
        raise Broken("TLC trace validation failed (%s):\n%s" % (tag, out[-3000:]))
    R.traces += 1
    R.evaluations += n
    return True


def save_trace_reject(R, trace, tag, k, why):
    rp = vplib.replay_path(R.prop, tag + ".trace")
    lines = open(trace).read().splitlines()
    with open(rp, "w") as f:
        f.write("# %s; matched prefix = %d lines; context follows (last 15 matched + offending line)\n" % (why, k))
        for i in range(max(0, k - 15), min(len(lines), k + 1)):
            f.write("%d: %s\n" % (i + 1, lines[i]))
    return rp


def run_tracer(R, exe, args, env, tag, timeout=600):
    rc, out, wall = vplib.sh([exe] + [str(a) for a in args], timeout=timeout, env=env)
    if rc != 0:
        if "Sanitizer" in out or "runtime error" in out:
            rp = vplib.replay_path(R.prop, tag + ".tracer-crash")
            open(rp, "w").write(out[-6000:])
            R.mismatch(tag + ":sanitizer-in-trace-run", rp, "sanitizer report while recording a trace")
            return None
        raise Broken("tracer failed (%s) rc=%s: %s" % (tag, rc, out[-2000:]))
    m = re.search(r"^TRACE (\{.*\})$", out, re.M)
    return json.loads(m.group(1)) if m else {}


# ------------------------------------------------------------------------------------------
# C12 - queue / stack / list

def seqs_canon(st):
    items = st["items"]
    dead = [i + 1 for i, f in enumerate(st["fate"]) if f == "dead"]   # fate is a function over 1..N -> tuple
    proj = "%s|%d|%d|%s" % (vplib.ints(items), len(items), 1 if st["it"]["on"] else 0, vplib.ints(dead))
    return vplib.ints(st["obs"]), proj


@check("C12")
def c12(prop, tier, seed):
    R = Result(prop, tier, seed)
    exe = vplib.build("drv_seqs", ["utils", "structs"], ["drv_seqs.c"])
    quick = tier == "quick"
    variants = [("queue", "d", 1, 0), ("stack", "d", 1, 0), ("list", "dc", 1, 1), ("list", "ds", 1, 2), ("list", "dp", 1, 0),
                ("queue", "n", 0, 0), ("stack", "n", 0, 0), ("list", "nc", 0, 1), ("list", "np", 0, 0)]
    D = 6 if quick else 8
    budget = 400000 if quick else 30000000
    walks = 2000 if quick else 200000
    def task(kind, suf, dtor, cmp_):
        tag = "Seqs_%s_%s" % (kind, suf)
        env = {"VP_KIND": kind, "VP_DTOR": str(dtor), "VP_CMP": str(cmp_)}
        return lambda: e1e2(R, "Seqs.tla", tag + ".cfg", tag, seqs_canon, exe, env, D, budget, walks, 24, seed, workers=2)
    def simtask(kind, suf, dtor, cmp_):
        tag = "Seqs_%s_%s_big" % (kind, suf)
        env = {"VP_KIND": kind, "VP_DTOR": str(dtor), "VP_CMP": str(cmp_)}
        return lambda: sim_e2(R, "Seqs.tla", tag + ".cfg", tag + ".sim", seqs_canon, exe, env, 2000 if quick else 60000, 40 if quick else 80, seed)
    sims = [("queue", "d", 1, 0), ("stack", "d", 1, 0), ("list", "dc", 1, 1), ("list", "ds", 1, 2), ("list", "dp", 1, 0)]
    vplib.parallel([task(*v) for v in variants] + [simtask(*v) for v in sims], max_workers=8)
    R.rule = ("(.sim: 6 elements / length 6, behaviours sampled by TLC's simulation mode and replayed) "
              "programs = edge sequences of the dumped TLC graph of Seqs.tla: all maximal paths of length <= %d from the "
              "initial state (budget %d per config), an edge cover, and %d seeded random walks of length 24, per "
              "container kind x destructor x comparator; non-trivial = contains an iterator mutation "
              "(ItrRemove/ItrSet/ItrInsert) followed by a later non-iterator operation; distinct by action-label sequence"
              % (D, budget, walks))
    R.assumptions = ["containers are not mutated behind a live iterator's back (precondition)",
                     "elements are driver-owned objects; destructor = counter", "ASan/UBSan attached to every replay",
                     "bounds: 3 elements, length <= 3"]
    return R.finish()


# ------------------------------------------------------------------------------------------
# C10 - reference counted blocks

def mem_canon(st):
    parts = []
    for i, s in enumerate(st["st"]):
        if s == "live":
            parts.append("L%da1p1" % st["size"][i])
        else:
            parts.append("D")
    return vplib.ints(st["obs"]), ";".join(parts)


def tlc_only(R, spec, cfg, tag, workers=8, timeout=900):
    res = vplib.tlc(spec, cfg, workers=workers, timeout=timeout)
    vplib.tlc_require_ok(res, tag)
    R.add_tlc(res, tag)
    if res["violated"]:
        rp = vplib.replay_path(R.prop, tag + ".tlc")
        with open(rp, "w") as f:
            f.write(res["out"][-20000:])
        R.mismatch(tag + ":model-" + res["violated"], rp, "TLC: %s violated in the bounded model" % res["violated"])
    return res


@check("C10")
def c10(prop, tier, seed):
    R = Result(prop, tier, seed)
    exe = vplib.build("drv_mem", ["utils", "mem"], ["drv_mem.c"])
    quick = tier == "quick"
    tlc_only(R, "Mem.tla", "Mem_mc.cfg", "Mem_mc")
    D = 6 if quick else 8
    e1e2(R, "Mem.tla", "Mem_e2.cfg", "Mem_e2", mem_canon, exe, {"VP_NBLOCKS": "3"}, D,
         300000 if quick else 20000000, 2000 if quick else 200000, 30, seed)
    # E3: every size 0..N (all residues mod 16) and a random population of 8 blocks, validated by TLC against MemTrace
    d = vplib.rundir("c10.e3")
    tr = os.path.join(d, "mem.ndjson")
    info = run_tracer(R, exe, ["--trace", tr, seed, 4000 if quick else 60000, 1024 if quick else 6000], {}, "MemTrace")
    if info is not None:
        if info.get("outstanding", 0) != 0:
            R.mismatch("MemTrace:leak", tr, "allocator ledger: %s blocks outstanding at the end of the trace run" % info["outstanding"])
        e3_validate(R, "MemTrace.tla", "MemTrace.cfg", tr, "MemTrace")
        lines = open(tr).read().splitlines()
        R.samples.append({"trace_excerpt": [json.loads(x) for x in lines[7:10]]})
    vplib.cleanup(d)
    R.rule = ("programs = edge sequences of the dumped TLC graph of Mem.tla (3 blocks, nested destructors to depth 3): all "
              "maximal paths of length <= %d, an edge cover, seeded random walks; non-trivial = a block that was re-referenced "
              "or owns/is a nested block gets unreferenced; distinct by action-label sequence" % D)
    R.assumptions = ["references are dropped only by their owner (precondition)", "allocator = ledger installed as memhook",
                     "ASan/UBSan attached", "bounds: 3 blocks, <= 3 references each"]
    return R.finish()


# ------------------------------------------------------------------------------------------
# C11 - ordered set (BST)

def bst_canon(usercmp):
    def canon(st):
        key = (lambda e: (e + 1) // 2) if usercmp else (lambda e: e)
        el = sorted(st["elems"]["__set__"], key=key)
        dead = [i + 1 for i, f in enumerate(st["fate"]) if f == "dead"]
        proj = "%s|%d|%d|%s" % (vplib.ints(el), len(el), 1 if st["it"]["on"] else 0, vplib.ints(dead))
        return vplib.ints(st["obs"]), proj
    return canon


@check("C11")
def c11(prop, tier, seed):
    R = Result(prop, tier, seed)
    exe = vplib.build("drv_bst", ["utils", "structs"], ["drv_bst.c"])
    quick = tier == "quick"
    D = 7 if quick else 9
    budget = 600000 if quick else 40000000
    walks = 2000 if quick else 200000

    def task(suf, dtor, ucmp):
        tag = "Bst_" + suf
        env = {"VP_DTOR": str(dtor), "VP_USERCMP": str(ucmp)}
        return lambda: e1e2(R, "Bst.tla", tag + ".cfg", tag, bst_canon(ucmp), exe, env, D, budget, walks, 30, seed, workers=4)
    def simtask(suf, dtor, ucmp):
        tag = "Bst_%s_big" % suf
        env = {"VP_DTOR": str(dtor), "VP_USERCMP": str(ucmp)}
        return lambda: sim_e2(R, "Bst.tla", tag + ".cfg", tag + ".sim", bst_canon(ucmp), exe, env, 2000 if quick else 60000, 50 if quick else 100, seed)
    vplib.parallel([task("du", 1, 1), task("dp", 1, 0), task("nu", 0, 1), task("np", 0, 0), simtask("du", 1, 1), simtask("np", 0, 0)], max_workers=6)
    R.rule = ("(.sim: 8 elements, behaviours sampled by TLC's simulation mode and replayed, queries included as ordinary steps) "
              "programs = edge sequences of the dumped TLC graph of Bst.tla (5 elements; user comparator with equal keys / "
              "default comparator on addresses 2^31 and 2^32 apart): all maximal paths of <= %d mutating steps with every "
              "query (find, in-order with early stop, pre/post-order shape consistency, iterator get) executed at every node, "
              "an edge cover, seeded random walks; non-trivial = a removal with >= 3 elements present followed by further "
              "operations" % D)
    R.assumptions = ["no mutation behind a live iterator (precondition)", "ASan/UBSan attached", "bounds: 5 elements"]
    return R.finish()


# ------------------------------------------------------------------------------------------
# C05 - map

def map_canon(dup):
    def canon(st):
        m = st["m"]
        d = m.get("__fn__", {}) if isinstance(m, dict) else {}
        if isinstance(m, dict) and "__fn__" not in m:
            d = m            # record-like print [a |-> 1]
        it = st["it"]
        cur = "0" if not it["on"] else ("x" if it["rm"] else it["cur"])
        dead = [i + 1 for i, f in enumerate(st["fate"]) if f == "dead"]
        allocs = 2 + (len(d) if dup else 0) + (1 if it["on"] else 0)
        proj = "%s|%d|%s|%s|%d" % (",".join("%s=%d" % (k, d.get(k, 0)) for k in ("a", "b", "c")), len(d), cur,
                                   vplib.ints(dead), allocs)
        return vplib.ints(st["obs"]), proj
    return canon


@check("C05")
def c05(prop, tier, seed):
    R = Result(prop, tier, seed)
    exe = vplib.build("drv_map", ["utils", "structs"], ["drv_map.c"])
    quick = tier == "quick"
    D = 5 if quick else 7
    budget = 250000 if quick else 20000000
    walks = 1000 if quick else 100000
    tasks = []
    flagsets = [("duk", 1, 1, 1), ("dfk", 1, 0, 1), ("dus", 1, 1, 0), ("nfs", 0, 0, 0)] if quick else \
        [(a + b + c, int(a == "d"), int(b == "u"), int(c == "k")) for a in "dn" for b in "uf" for c in "ks"]
    for suf, dtor, upd, dup in flagsets:
        for km in (0, 1, 2, 3, 4):
            if quick and km in (1, 3) and suf != "duk":
                continue
            tag = "MapAbs_%s" % suf
            env = {"VP_DTOR": str(dtor), "VP_UPDATE": str(upd), "VP_DUP": str(dup), "VP_KEYMODE": str(km)}
            tasks.append((lambda tag=tag, env=env, dup=dup, km=km:
                          e1e2(R, "MapAbs.tla", tag + ".cfg", "%s.km%d" % (tag, km), map_canon(dup), exe, env, D, budget, walks,
                               24, seed, workers=2)))
    vplib.parallel(tasks, max_workers=8)
    # E3: traces over hundreds / thousands of keys (the table grows and is rehashed), validated by TLC against MapTrace.tla
    d = vplib.rundir("c05.e3")
    for suf, dtor, upd, dup in ([("duk", 1, 1, 1)] if quick else [("duk", 1, 1, 1), ("dfk", 1, 0, 1), ("nus", 0, 1, 0)]):
        tr = os.path.join(d, "map_%s.ndjson" % suf)
        env = {"VP_DTOR": str(dtor), "VP_UPDATE": str(upd), "VP_DUP": str(dup)}
        info = run_tracer(R, exe, ["--trace", tr, seed, 500 if quick else 1400, 2200 if quick else 6000], env, "MapTrace_" + suf)
        if info is None:
            continue
        if info.get("outstanding", 0) != 0:
            R.mismatch("MapTrace_%s:leak" % suf, tr, "allocator ledger: %s blocks outstanding after the map was freed" % info["outstanding"])
        e3_validate(R, "MapTrace.tla", "MapTrace_%s%s.cfg" % (suf, "_q" if quick else ""), tr, "MapTrace_" + suf, timeout=1500)
        lines = open(tr).read().splitlines()
        R.samples.append({"trace_excerpt": [json.loads(x) for x in lines[300:302]]})
    # ... and over an adversarial key set: a cluster as long as the probe limit (128 keys in one home slot) with keys homed at its far end
    tr = os.path.join(d, "map_cluster.ndjson")
    env = {"VP_DTOR": "1", "VP_UPDATE": "1", "VP_DUP": "1", "VP_TRACE_CLUSTER": "1"}
    info = run_tracer(R, exe, ["--trace", tr, seed, 140, 1500 if quick else 6000], env, "MapTrace_cluster")
    if info is not None:
        if info.get("outstanding", 0) != 0:
            R.mismatch("MapTrace_cluster:leak", tr, "allocator ledger: %s blocks outstanding after the map was freed" % info["outstanding"])
        e3_validate(R, "MapTrace.tla", "MapTrace_duk%s.cfg" % ("_q" if quick else ""), tr, "MapTrace_cluster", timeout=1500)
    # ... and one key per home slot over 150 consecutive slots across the table end: a cluster longer than half of the table
    tr = os.path.join(d, "map_cluster2.ndjson")
    env = {"VP_DTOR": "1", "VP_UPDATE": "1", "VP_DUP": "1", "VP_TRACE_CLUSTER": "2"}
    info = run_tracer(R, exe, ["--trace", tr, seed, 150, 1500 if quick else 6000], env, "MapTrace_cluster2")
    if info is not None:
        if info.get("outstanding", 0) != 0:
            R.mismatch("MapTrace_cluster2:leak", tr, "allocator ledger: %s blocks outstanding after the map was freed" % info["outstanding"])
        e3_validate(R, "MapTrace.tla", "MapTrace_duk%s.cfg" % ("_q" if quick else ""), tr, "MapTrace_cluster2", timeout=1500)
    vplib.cleanup(d)
    R.rule = ("programs = edge sequences of the dumped TLC graph of MapAbs.tla (3 keys x 3 values, flag combinations) replayed "
              "with 5 key sets: plain, all keys in one home slot, and three sets homed at slots 254/255/0 so that clusters wrap "
              "around the table end; all maximal paths of <= %d mutating steps with all queries at every node, edge cover, "
              "random walks; iteration order is a library choice followed by observation; non-trivial = >= 2 keys present and "
              "an entry removed during an iteration. Plus recorded traces of random put/get/contains/remove/clear, callback iteration removing "
              "a residue class of keys and iterator sweeps with removal over 500 (quick) / 1400 (thorough) keys - the table is rehashed 1-3 times - "
              "validated line by line by TLC against MapTrace.tla; one more trace uses an adversarial key set (128 keys in one home slot: a cluster as "
              "long as the probe limit, plus keys homed at its far end and in its middle)" % D)
    R.assumptions = ["no mutation behind a live iterator except through it (precondition)", "ASan/UBSan + allocator ledger attached",
                     "adversarial keys are searched with a copy of the public hash function (coverage aid only)"]
    return R.finish()


# ------------------------------------------------------------------------------------------
# C06 - thread pool

_PCW = {"none": "-", "lock": "L", "condwait": "W", "sleeping": "S", "woken": "R", "unlock_run": "U", "taskbegin": "B",
        "taskend": "E", "exit_bcast": "C", "exit_unlock": "U", "exited": "X",
        "n_lock": "L", "n_refuse": "U", "n_create": "T", "n_signal": "G", "n_unlock": "U"}
_PCS = {"idle": "-", "lock": "L", "create": "T", "signal": "G", "unlock": "U", "done": "X"}
_PCM = {"create": "T", "start": "s", "joinsubs": "j", "f_lock": "L", "f_bcast": "C", "f_unlock": "U", "f_join": "J",
        "f_lock2": "L", "f_wait": "W", "f_sleeping": "S", "f_woken": "R", "f_unlock2": "U", "f_cdestroy": "c",
        "f_mdestroy": "m", "returned": "X"}


def _seq(v):
    """TLC prints functions over 1..n as tuples, other functions as (k :> v @@ ...)."""
    if isinstance(v, list):
        return v
    if isinstance(v, dict) and "__fn__" in v:
        d = v["__fn__"]
        return [d[k] for k in sorted(d)]
    return [v]


def thpool_canon(st):
    parts = [str(st["lock"]), "M" + _PCM[st["pcM"]]]
    parts += ["S" + _PCS[x] for x in _seq(st["pcS"])]
    parts += ["W" + _PCW[x] for x in _seq(st["pcW"])]
    parts.append("".join({"new": "q", "queued": "q", "discarded": "q", "running": "r", "done": "d"}[x] for x in _seq(st["task"])))
    parts.append("1" if st["freed"] else "0")
    return "-", "|".join(parts)


THPOOL_SIZES = {"1x2": (1, "2"), "2x2": (2, "2"), "2x11": (2, "1,1"), "2x21": (2, "2,1"), "3x3": (3, "3"), "2x2f": (2, "2")}
THPOOL_FOLLOW = {"2x2f": "1:3,2:4"}      # tasks that submit follow-up tasks to their own pool while they run


@check("C06")
def c06(prop, tier, seed):
    R = Result(prop, tier, seed)
    exe = vplib.build("drv_thpool", ["utils", "structs", "thpool"], ["drv_thpool.c"],
                      per_file_flags={"Lib/thpool/thpool.c": ["-include", os.path.join(vplib.HARN, "vp_sched.h")]})
    quick = tier == "quick"
    flavours = [l + d + w for l in "le" for d in "dj" for w in "ac"]
    sizes = ["2x2", "2x21", "2x2f"] if quick else ["1x2", "2x2", "2x11", "2x21", "3x3", "2x2f"]
    budget = 1500 if quick else 60000
    walks = 300 if quick else 20000
    tasks = []
    for fl in flavours:
        for sz in sizes:
            tag = "Thpool_%s_%s" % (fl, sz)
            n, subs = THPOOL_SIZES[sz]
            env = {"VP_N": str(n), "VP_SUBS": subs, "VP_LAZY": "1" if fl[0] == "l" else "0",
                   "VP_DETACHED": "1" if fl[1] == "d" else "0", "VP_WAITALL": "1" if fl[2] == "a" else "0",
                   "GW_COVER_TAIL": "6"}
            if sz in THPOOL_FOLLOW:
                env["VP_FOLLOW"] = THPOOL_FOLLOW[sz]
            tasks.append(lambda tag=tag, env=env: e1e2(R, "ThpoolMC.tla", tag + ".cfg", tag, thpool_canon, exe, env, 400, budget,
                                                       walks, 60, seed, workers=2))
            if not quick or sz in ("2x21", "2x2f"):
                tasks.append(lambda tag=tag: tlc_only(R, "ThpoolMC.tla", tag + "_live.cfg", tag + "_live", workers=2))
    # 4 workers, 5 tasks, 2 submitters: too large to enumerate; complete schedules sampled by TLC's simulation mode
    for fl in flavours:
        tag = "Thpool_%s_4x32" % fl
        env = {"VP_N": "4", "VP_SUBS": "3,2", "VP_LAZY": "1" if fl[0] == "l" else "0",
               "VP_DETACHED": "1" if fl[1] == "d" else "0", "VP_WAITALL": "1" if fl[2] == "a" else "0"}
        tasks.append(lambda tag=tag, env=env: sim_e2(R, "ThpoolMC.tla", tag + ".cfg", tag + ".sim", thpool_canon, exe, env,
                                                     300 if quick else 20000, 600, seed, workers=2))
    vplib.parallel(tasks, max_workers=8)
    # memory-level races are outside the controlled replay (the scheduler serialises everything): real threads under TSan observe them
    sexe = vplib.build("stress_thpool", ["utils", "structs", "thpool"], ["stress_thpool.c"], san="tsan")
    rc, out, wall = vplib.sh([sexe, "25" if quick else "600", str(seed)], env={"TSAN_OPTIONS": "halt_on_error=0 exitcode=0 report_signal_unsafe=0"}, timeout=1200)
    seen = set()
    for summ in re.findall(r"SUMMARY: ThreadSanitizer: ([^\n]*)", out):
        key = re.sub(r"0x[0-9a-f]+", "", summ)
        if key not in seen:
            seen.add(key)
            rp = vplib.replay_path(R.prop, "stress.tsan.%d" % len(seen))
            open(rp, "w").write(out[-20000:])
            R.mismatch("c06-tsan:" + re.sub(r"[^A-Za-z0-9_.]+", "-", key)[:80], rp, "ThreadSanitizer (real-thread stress): " + summ[:200])
    for line in out.splitlines():
        if line.startswith("STRESS-FAIL"):
            rp = vplib.replay_path(R.prop, "stress.fail")
            open(rp, "w").write(out[-20000:])
            R.mismatch("c06-stress:" + re.sub(r"[^A-Za-z0-9_.]+", "-", line[12:60]), rp, line[:300])
            break
    m = re.search(r"STRESS (\{.*\})", out)
    if not m and not R.mismatches:
        raise Broken("thread-pool stress died rc=%s:\n%s" % (rc, out[-2000:]))
    if m:
        R.extra["tsan_stress"] = dict(json.loads(m.group(1)), wall_s=round(wall, 1))
    R.rule = ("(.sim: 4 workers, 5 tasks, 2 submitters: complete schedules sampled by TLC's simulation mode and replayed) "
              "programs = complete schedules (paths from the initial to a terminal state) of the dumped TLC graph of Thpool.tla at "
              "pthread-operation granularity, executed on the real thpool.c under a cooperative scheduler: depth-first enumeration "
              "(budget %d per config), an edge cover (every transition, incl. every spurious wake-up and every signal target) and %d "
              "random schedules, for 8 flavours (lazy/eager x detached/joinable x wait-all/current) x %d (threads, tasks, submitters) "
              "sizes; non-trivial = a worker slept in cond_wait and was woken (signal, broadcast or spuriously)" % (budget, walks, len(sizes)))
    R.assumptions = ["handle not used concurrently with its own destruction (documented precondition: free after all submitters returned)",
                     "pthread primitives behave as specified (virtualised by the scheduler); memory-level races are observed by TSan in the real-thread stress (harness/stress_thpool.c: random pools / submitters / tasks for the 8 flavours, schedules as they come)",
                     "ASan/UBSan + allocator ledger attached to every schedule"]
    return R.finish()


# ------------------------------------------------------------------------------------------
# Core (C01 C02 C03 C04 C07 C08 C15 C19 ...)

def _fn(v):
    """TLA function value printed as record [A |-> ..] / (k :> v @@ ..) / tuple -> dict or list"""
    if isinstance(v, dict) and "__fn__" in v:
        return v["__fn__"]
    return v


KIND_ORDER = ["fd", "tmr", "sgn", "path", "pid", "task", "thr"]


def core_canon(mods, maxpay, nkeys=1):
    def evs(ms):
        out = []
        for x in ms:
            out.append("%d/%s/%s/%d/%s%s" % (x["p"], x["from"], x["topic"], 1 if x["sys"] else 0, x["ud"], "'" if x.get("uv") else ""))
        return ";".join(out) if out else "_"

    def setof(v):
        return v["__set__"] if isinstance(v, dict) and "__set__" in v else v

    def canon(st):
        S = st["S"]
        ctx = S["ctx"]
        mod = _fn(S["mod"])
        nreg = sum(1 for m in mods if mod[m]["reg"])
        if ctx["st"] == "none":
            parts = ["ctx:none,0,0,0,t0"]
        else:
            parts = ["ctx:%s,%d,%d,%d,t%d" % (ctx["st"], nreg, S["run"], 1 if ctx["quit"] else 0, ctx["tick"])]
        for m in mods:
            x = mod[m]
            if x["st"] in ("none", "zombie"):
                parts.append("%s:%s:0:0:0:0:0:-1:0" % (m, x["st"]))
            else:
                tb = x["tb"]
                parts.append("%s:%s:%d:%d:%d:%d:%d:%d:%d" % (m, x["st"], len(x["pipe"]), len(x["bq"]), len(x["stash"]), len(x["hs"]), x["blen"],
                                                            tb["tok"] if tb["rate"] else -1, 1 if x["bt"] else 0))
        srcs = []
        for m in mods:
            x = mod[m]
            if x["st"] in ("none", "zombie"):
                srcs.append("-")
                continue
            if x.get("old") and ctx["st"] != "none":
                # a module of a released context while the thread already has a fresh one: the count queries are refused
                srcs.append(".".join(["-1"] * 9))
                continue
            ss = setof(x["src"])
            counts = [len(setof(x["subs"]))] + [sum(1 for q in ss if q["k"] == k) for k in KIND_ORDER]
            srcs.append(".".join(str(c) for c in counts + [sum(counts)]))
        parts.append("src:" + ",".join(srcs))
        ufd = S["ufd"]
        ufd = ufd if isinstance(ufd, list) else [_fn(ufd)[k] for k in sorted(_fn(ufd))]
        parts.append("ufd:" + "".join("c" if ufd[i] == "closed" else "o" for i in range(nkeys)))
        parts.append("held:" + evs(S["held"]))
        pay = S["pay"]
        pay = pay if isinstance(pay, list) else [_fn(pay)[k] for k in sorted(_fn(pay))]
        parts.append("pay:" + "".join({"unused": "u", "live": "l", "freed": "f"}[x["st"]] for x in pay))
        # task threads executing the user's function
        trun = sorted("%s%d" % (t[0], t[1]) for t in setof(S.get("trun", [])))
        parts.append("tk:" + (",".join(trun) if trun else "_"))
        stack = S["stack"]
        depth = sum(1 for f in stack if f["k"] == "cb")
        parts.append("d%d" % depth)
        if stack and stack[0]["k"] == "cb":
            f = stack[0]
            kind = f["a"] + (str(f["h"]) if f["a"] == "evt" else "")
            parts.append("cb:%s:%s:%s" % (f["m"], kind, evs(f["ev"])))
        else:
            parts.append("-")
        # Ready(): what the poll must report in this state
        rdy = ""
        due = setof(S["due"])
        rd = setof(S["rdy"])
        idue = setof(S["idue"])
        for m in mods:
            x = mod[m]
            if x["st"] != "running":
                continue
            if len(x["pipe"]) > 0:
                rdy += "%sp0," % m
            ss = setof(x["src"])
            for key in range(1, 4):
                if key in rd and any(q["k"] == "fd" and q["key"] == key for q in ss):
                    rdy += "%sf%d," % (m, key)
            for key in range(1, 4):
                if any(q["k"] == "tmr" and q["key"] == key for q in ss) and any(d[0] == m and d[1] == key for d in due):
                    rdy += "%st%d," % (m, key)
            xdue = setof(S.get("xdue", []))
            for key in range(1, 4):
                if key in setof(S.get("sigp", [])) and any(q["k"] == "sgn" and q["key"] == key for q in ss):
                    rdy += "%sg%d," % (m, key)
            for key in range(1, 4):
                if any(q["k"] == "path" and q["key"] == key for q in ss) and any(d[0] == m and d[1] == "path" and d[2] == key for d in xdue):
                    rdy += "%sh%d," % (m, key)
            for key in range(1, 4):
                if key in setof(S.get("dead", [])) and any(q["k"] == "pid" and q["key"] == key for q in ss):
                    rdy += "%si%d," % (m, key)
            for key in range(1, 4):
                if any(q["k"] == "task" and q["key"] == key for q in ss) and any(d[0] == m and d[1] == "task" and d[2] == key for d in xdue):
                    rdy += "%sj%d," % (m, key)
            if any(d[0] == m and d[1] == "tb" for d in idue):
                rdy += "%sb0," % m
            if any(d[0] == m and d[1] == "bt" for d in idue):
                rdy += "%so0," % m
        if any(d[1] == "tick" for d in idue):
            rdy += "k0,"
        return "%s;%s" % (S["ret"], rdy), "|".join(parts)
    return canon


CORE_WRAPS = ["-Wl,--wrap=epoll_wait,--wrap=write,--wrap=pipe,--wrap=close,--wrap=epoll_create1,--wrap=timerfd_create,--wrap=timerfd_settime,--wrap=pthread_join,--wrap=m_thpool_new,--wrap=eventfd,--wrap=signalfd,--wrap=inotify_init1,--wrap=inotify_add_watch,--wrap=syscall"]


def build_core():
    return vplib.build("drv_core", ["utils", "mem", "structs", "thpool", "core"], ["drv_core.c"], extra_ldflags=CORE_WRAPS)


def core_run(R, exe, cfg, mods, env, D, budget, walks, L, seed, maxpay=1, workers=4, timeout=1500, suffix=""):
    tag = cfg.replace(".cfg", "") + suffix
    e = {"VP_MODS": ",".join(mods), "VP_MAXPAY": str(maxpay), "GW_FORK": "1", "GW_COVER_TAIL": "3"}
    if R.tier == "quick":
        e["GW_COVER_MAX"] = "25000"
        R.exhaustive = False
    e.update(env)
    nkeys = int(e.get("VP_NKEYS", "1"))
    return e1e2(R, "CoreMC.tla", cfg, tag, core_canon(mods, maxpay, nkeys), exe, e, D, budget, walks, L, seed, workers=workers, timeout=timeout)


def core_sim(R, exe, name, num, depth, seed, workers=8, timeout=1500, suffix=""):
    """Configurations too large to enumerate: TLC's simulation mode samples behaviours of Core.tla (monitors checked on every sampled
    state), each sampled behaviour is replayed into the real code and completed to a clean state where the sampled graph has a way."""
    import glob
    mods, env = CORE_CFGS[name]
    cfg = "Core_mc_%s.cfg" % name
    tag = "Core_mc_%s.sim%s" % (name, suffix)
    d = vplib.rundir("sim." + tag)
    res = vplib.tlc("CoreMC.tla", cfg, workers=workers, simulate=max(1, num // workers), depth=depth, timeout=timeout, seed=seed,
                    metadir=os.path.join(d, "md"), simfile=os.path.join(d, "t"))
    m = re.search(r"(\d+) states checked, (\d+) traces generated", res["out"])
    res["generated"] = int(m.group(1)) if m else 0
    res["distinct"] = 0
    if res["rc"] == 124:
        raise Broken("TLC simulation timeout: " + tag)
    if res["violated"]:
        rp = vplib.replay_path(R.prop, tag + ".tlc")
        open(rp, "w").write(res["out"][-20000:])
        R.add_tlc(res, tag)
        R.mismatch(tag + ":model-" + res["violated"], rp, "TLC (simulation): %s violated" % res["violated"])
        vplib.cleanup(d)
        return None
    if res["rc"] != 0:
        raise Broken("TLC simulation failed (%s) rc=%s:\n%s" % (tag, res["rc"], res["out"][-3000:]))
    states, edges, inits, progs = vplib.parse_sim_traces(sorted(glob.glob(os.path.join(d, "t_*"))))
    res["distinct"] = len(states)
    R.add_tlc(res, tag)
    mp = int(env.get("VP_MAXPAY", "1"))
    table = os.path.join(d, "graph.tab")
    vplib.write_table(table, states, edges, inits, core_canon(mods, mp, int(env.get("VP_NKEYS", "1"))))
    pf = os.path.join(d, "progs.txt")
    with open(pf, "w") as f:
        for p in progs:
            # a sampled behaviour may stop inside a callback: keep its longest prefix that ends at the top level
            while p and states[p[-1][1]]["S"]["stack"]:
                p.pop()
            if p:
                f.write("\n".join(lab for lab, _ in p) + "\n--\n")
    e = {"VP_MODS": ",".join(mods), "VP_MAXPAY": str(mp), "GW_FORK": "1", "GW_PROGS": pf, "GW_WALL_S": str(int(timeout * 0.7))}
    e.update(env)
    rdir = os.path.join(vplib.VERIF, "replays")
    os.makedirs(rdir, exist_ok=True)
    R.exhaustive = False
    stats = run_driver(R, exe, [table, rdir, R.prop + "." + tag, 0, 0, 0, 0, seed], e, timeout, tag)
    vplib.cleanup(d)
    return stats


CORE_CFGS = {
    "mix4": (["A", "B", "C", "D"], {"VP_HOOKS": "A:x,C:s", "VP_CAP": "3", "VP_CTXPERSIST": "1", "VP_SETUP": "loop4", "VP_MAXPAY": "4"}),
    "mixb": (["A", "B"], {"VP_HOOKS": "A:esx,B:x", "VP_FLAGS": "A:RP/-,B:CUS", "VP_CAP": "2", "VP_MAXPAY": "2"}),
    "mix": (["A", "B", "C"], {"VP_HOOKS": "A:esx,B:x", "VP_CAP": "2", "VP_CTXPERSIST": "1", "VP_SETUP": "loop3", "VP_MAXPAY": "3", "VP_NKEYS": "1", "VP_TASKS": "1"}),
    # name: (modules, env)
    "life": (["A", "B"], {"VP_HOOKS": "A:esx,B:x", "VP_CAP": "2"}),
    "ctx": (["A", "B"], {"VP_HOOKS": "A:x,B:e", "VP_CAP": "2"}),
    "ctx3c": (["A", "B", "C"], {"VP_HOOKS": "B:x", "VP_CAP": "2", "VP_NAMES": "m0,m296,m330"}),
    "ctxn": (["A", "B"], {"VP_HOOKS": "A:x", "VP_FLAGS": "A:R,B:-", "VP_CAP": "2"}),
    "ctxc": (["A", "B"], {"VP_HOOKS": "A:x,B:e", "VP_CAP": "2", "VP_NAMES": "db,fs"}),
    "lifec": (["A", "B"], {"VP_HOOKS": "A:esx,B:x", "VP_CAP": "2", "VP_NAMES": "db,fs"}),
    "ctxp": (["A", "B"], {"VP_HOOKS": "A:x,B:e", "VP_CAP": "2", "VP_CTXPERSIST": "1"}),
    "perm": (["A", "B"], {"VP_HOOKS": "A:sx,B:sx", "VP_FLAGS": "A:RP/-,B:CUS", "VP_CAP": "2"}),
    "ps2q": (["A", "B"], {"VP_CAP": "2", "VP_CTXPERSIST": "1", "VP_SETUP": "loop2", "VP_MAXPAY": "2"}),
    "pillcb": (["A", "B"], {"VP_HOOKS": "B:x", "VP_CAP": "2", "VP_CTXPERSIST": "1", "VP_SETUP": "loop2", "VP_MAXPAY": "2"}),
    "ps2": (["A", "B"], {"VP_CAP": "2", "VP_CTXPERSIST": "1", "VP_SETUP": "loop2", "VP_MAXPAY": "2"}),
    "pub2": (["A", "B"], {"VP_CAP": "2", "VP_CTXPERSIST": "1", "VP_SETUP": "loop2"}),
    "flush3": (["A", "B", "C"], {"VP_CAP": "2", "VP_CTXPERSIST": "1", "VP_SETUP": "loop3"}),
    "ps3": (["A", "B", "C"], {"VP_CAP": "2", "VP_CTXPERSIST": "1", "VP_SETUP": "loop3"}),
    "sysmq": (["A", "B"], {"VP_CAP": "2", "VP_CTXPERSIST": "1", "VP_SETUP": "loop2"}),
    "sysos": (["A", "B"], {"VP_FLAGS": "A:-,B:U", "VP_CAP": "2", "VP_CTXPERSIST": "1", "VP_SETUP": "loop2"}),
    "sysm": (["A", "B"], {"VP_CAP": "2", "VP_CTXPERSIST": "1", "VP_SETUP": "loop2"}),
    "sysc": (["A", "B"], {"VP_CAP": "3", "VP_CTXPERSIST": "1"}),
    "srca": (["A"], {"VP_CAP": "2", "VP_CTXPERSIST": "1", "VP_NKEYS": "2"}),
    "srcbad": (["A"], {"VP_CAP": "2", "VP_CTXPERSIST": "1", "VP_NKEYS": "2", "VP_BADKEYS": "2"}),
    "srcb": (["A"], {"VP_CAP": "2", "VP_CTXPERSIST": "1", "VP_NKEYS": "2"}),
    "fdev": (["A", "B"], {"VP_CAP": "2", "VP_CTXPERSIST": "1", "VP_SETUP": "loop2", "VP_NKEYS": "1"}),
    "rearm": (["A", "B"], {"VP_CAP": "2", "VP_CTXPERSIST": "1", "VP_SETUP": "loop2", "VP_NKEYS": "1"}),
    "tb": (["A", "B"], {"VP_CAP": "2", "VP_CTXPERSIST": "1", "VP_SETUP": "loop2"}),
    "tbbt": (["A", "B"], {"VP_CAP": "2", "VP_CTXPERSIST": "1", "VP_SETUP": "loop2", "VP_MAXPAY": "2"}),
    "tbbte": (["A", "B"], {"VP_CAP": "2", "VP_CTXPERSIST": "1", "VP_SETUP": "loop2", "VP_MAXPAY": "2", "VP_BT_NS": "15258"}),
    "tbb": (["A", "B"], {"VP_CAP": "3", "VP_CTXPERSIST": "1", "VP_SETUP": "loop2", "VP_MAXPAY": "2", "VP_NKEYS": "1"}),
    "tbtmr": (["A", "B"], {"VP_CAP": "2", "VP_CTXPERSIST": "1", "VP_SETUP": "loop2"}),
    "btmo": (["A", "B"], {"VP_CAP": "2", "VP_CTXPERSIST": "1", "VP_SETUP": "loop2", "VP_MAXPAY": "2"}),
    "tick": (["A", "B"], {"VP_CAP": "2", "VP_CTXPERSIST": "1"}),
    "tickh": (["A", "B"], {"VP_HOOKS": "A:s,B:e", "VP_CAP": "2", "VP_CTXPERSIST": "1"}),
    "mem": (["A", "B"], {"VP_CAP": "2", "VP_CTXPERSIST": "1", "VP_SETUP": "loop2", "VP_MAXPAY": "2"}),
    "memfd": (["A", "B"], {"VP_CAP": "2", "VP_CTXPERSIST": "1", "VP_SETUP": "loop2", "VP_NKEYS": "1"}),
    "foreign": (["A", "B"], {"VP_HOOKS": "A:esx,B:x", "VP_FLAGS": "A:C,B:-", "VP_CAP": "2"}),
    "stashb": (["A", "B"], {"VP_CAP": "2", "VP_CTXPERSIST": "1", "VP_SETUP": "loop2", "VP_MAXPAY": "2", "VP_NKEYS": "1"}),
    "subos": (["A", "B"], {"VP_CAP": "2", "VP_CTXPERSIST": "1", "VP_SETUP": "loop2"}),
    "bc2": (["A", "B"], {"VP_CAP": "2", "VP_CTXPERSIST": "1", "VP_SETUP": "loop2", "VP_MAXPAY": "3"}),
    "batch": (["A", "B"], {"VP_CAP": "3", "VP_CTXPERSIST": "1", "VP_SETUP": "loop2", "VP_MAXPAY": "2"}),
    "stash": (["A", "B"], {"VP_CAP": "2", "VP_CTXPERSIST": "1", "VP_SETUP": "loop2", "VP_MAXPAY": "2"}),
    "stashu": (["A", "B"], {"VP_CAP": "2", "VP_CTXPERSIST": "1", "VP_SETUP": "loop2", "VP_MAXPAY": "2"}),
    "kev": (["A", "B"], {"VP_CAP": "2", "VP_CTXPERSIST": "1", "VP_SETUP": "loop2", "VP_NKEYS": "1"}),
    "kevl": (["A", "B"], {"VP_CAP": "2", "VP_CTXPERSIST": "1", "VP_SETUP": "loop2", "VP_NKEYS": "1"}),
    "tskq": (["A", "B"], {"VP_CAP": "2", "VP_CTXPERSIST": "1", "VP_SETUP": "loop2", "VP_NKEYS": "1", "VP_TASKS": "1", "VP_POOLSZ": "1"}),
    "tsk": (["A", "B"], {"VP_CAP": "2", "VP_CTXPERSIST": "1", "VP_SETUP": "loop2", "VP_NKEYS": "1", "VP_TASKS": "1"}),
    "become": (["A", "B"], {"VP_CAP": "2", "VP_CTXPERSIST": "1", "VP_SETUP": "loop2", "VP_MAXPAY": "1"}),
}


def core_check(prop, tier, seed, quick_cfgs, thorough_cfgs, rule, Dq=5, Dt=7, budget_q=60000, budget_t=4000000, loop_cfgs=(), col_cfgs=(), sim_cfgs=(), loop_cfgs_thorough=(), timeout_t=1500, sim_rounds_t=12):
    R = Result(prop, tier, seed)
    exe = build_core()
    quick = tier == "quick"
    cfgs = quick_cfgs if quick else thorough_cfgs
    if os.environ.get("VP_ONLY"):      # debugging aid: restrict a run to some configurations
        only = os.environ["VP_ONLY"].split(",")
        cfgs = [c for c in only if c in CORE_CFGS and not c.endswith(".loop")]
        loop_cfgs = [c[:-5] for c in only if c.endswith(".loop")]
        col_cfgs = [c[:-4] for c in only if c.endswith(".col")]
        sim_cfgs = [c[:-4] for c in only if c.endswith(".sim")]
        cfgs = [c for c in cfgs if not c.endswith(".col")]
    tasks = []
    for name in cfgs:
        mods, env = CORE_CFGS[name]
        mp = int(env.get("VP_MAXPAY", "1"))
        tasks.append(lambda name=name, mods=mods, env=env, mp=mp: core_run(
            R, exe, "Core_mc_%s.cfg" % name, mods, env, Dq if quick else Dt, budget_q if quick else budget_t,
            1500 if quick else 100000, 40, seed, maxpay=mp, workers=max(2, 12 // len(cfgs)), timeout=1500 if quick else timeout_t))
    if not quick and not os.environ.get("VP_ONLY"):
        loop_cfgs = list(loop_cfgs) + list(loop_cfgs_thorough)
    for name in loop_cfgs:
        # the same programs driven through blocking m_ctx_loop() calls instead of dispatch calls (C03: same deliveries)
        mods, env = CORE_CFGS[name]
        env = dict(env, VP_LOOPMODE="1")
        mp = int(env.get("VP_MAXPAY", "1"))
        tasks.append(lambda name=name, mods=mods, env=env, mp=mp: core_run(
            R, exe, "Core_mc_%s.cfg" % name, mods, env, Dq if quick else Dt, (budget_q if quick else budget_t) // 2,
            1500 if quick else 100000, 40, seed, maxpay=mp, workers=2, suffix=".loop"))
    for name in col_cfgs:
        # the same programs with module names that share a bucket of the context's module table (chains in the open-addressing map:
        # teardown, evaluation passes and broadcasts iterate it while callbacks remove entries)
        mods, env = CORE_CFGS[name]
        env = dict(env, VP_NAMES="db,fs")
        mp = int(env.get("VP_MAXPAY", "1"))
        tasks.append(lambda name=name, mods=mods, env=env, mp=mp: core_run(
            R, exe, "Core_mc_%s.cfg" % name, mods, env, Dq if quick else Dt, (budget_q if quick else budget_t) // 2,
            1500 if quick else 100000, 40, seed, maxpay=mp, workers=2, suffix=".col"))
    for name in sim_cfgs:
        # thorough: several rounds of a size the graph-table builder handles, each with its own seed
        for rnd in range(1 if quick else sim_rounds_t):
            tasks.append(lambda name=name, rnd=rnd: core_sim(R, exe, name, 1600 if quick else 4000, 40 if quick else 60, seed + 1000 * rnd, workers=4, suffix="" if quick else ".r%d" % rnd))
    vplib.parallel(tasks, max_workers=4)
    R.rule = ("programs = paths of the dumped TLC graph of Core.tla (configs: %s) whose edges are public API calls made from the top "
              "level or from inside callbacks and callback returns; every program is completed to a clean state (context released, "
              "all references dropped) where allocator and descriptor ledgers must be empty; all paths <= %d steps (budget %d), an "
              "edge cover, seeded random walks; non-trivial = contains a public call made from inside a callback. " % (
                  ",".join(cfgs), Dq if quick else Dt, budget_q if quick else budget_t)) + rule
    R.assumptions = ["one context on one thread; poll batches are chosen by the program (wrapped epoll_wait), the really-ready set is compared",
                     "mailbox capacity virtualised to 2-3 messages (wrapped write)", "ASan/UBSan + allocator ledger + descriptor ledger attached",
                     "white-box reads limited to running_modules, quit flag, mailbox fd, poll source owner"]
    return R.finish()


@check("C01")
def c01(prop, tier, seed):
    return core_check(prop, tier, seed, ["life", "lifec", "ctx3c", "ps2q", "pillcb"], ["life", "lifec", "ctx3c", "ps2q", "pillcb", "ctx", "perm", "pub2"],
                      "Compared after every step: module states, registered count, running_modules, callback kind/module/order, return codes.", sim_cfgs=["mixb"])


@check("C07")
def c07(prop, tier, seed):
    return core_check(prop, tier, seed, ["ctx", "ctxp", "ctxn", "ctxc", "ctx3c"], ["ctx", "ctxp", "ctxn", "ctxc", "ctx3c", "life", "lifec"],
                      "Focus: context register/deregister/finalize/loop from top level and from callbacks, persistent and not.", sim_cfgs=["mixb"])


@check("C15")
def c15(prop, tier, seed):
    return core_check(prop, tier, seed, ["perm"], ["perm"],
                      "Focus: replaceable/persistent/denied modules, restricted calls from callbacks at nesting depth 2.", Dq=5, Dt=6, sim_cfgs=["mixb"])


@check("C02")
def c02(prop, tier, seed):
    return core_check(prop, tier, seed, ["ps2q", "pub2", "bc2", "batch", "flush3"], ["ps2q", "pub2", "bc2", "batch", "flush3", "ps3", "ps2"],
                      "Compared: mailbox lengths, events handed to handlers (payload, sender, topic, system flag), payload release by the library.", sim_cfgs=["mix"])


@check("C08")
def c08(prop, tier, seed):
    return core_check(prop, tier, seed, ["ps2q", "batch", "bc2", "pillcb"], ["ps2q", "batch", "bc2", "pillcb", "ps2", "ps3"],
                      "Focus: two payloads in flight to one recipient, poison pill ordering, pause/resume, quit + flush.", Dq=6, Dt=8, sim_cfgs=["mix"])


@check("C19")
def c19(prop, tier, seed):
    return core_check(prop, tier, seed, ["sysmq", "sysos", "sysc", "tick", "tickh", "pillcb"], ["sysm", "sysos", "sysc", "sysmq", "tick", "tickh", "pillcb"],
                      "Focus: subscriptions to the system topics; notifications are ordinary mailbox messages (sender, topic, system flag compared).")


@check("C13")
def c13(prop, tier, seed):
    return core_check(prop, tier, seed, ["batch", "btmo", "kevl", "tbb", "tbbte"], ["batch", "btmo", "kevl", "tbb", "tbbt", "tbbte", "stashb"],
                      "Focus: low/normal/high priority subscriptions, batch sizes, which arrival triggers a handler invocation and with which events.", Dq=7, Dt=9)


@check("C16")
def c16(prop, tier, seed):
    return core_check(prop, tier, seed, ["stash", "stashu", "stashb"], ["stash", "stashu", "stashb", "become"],
                      "Focus: stash inside handlers, unstash(n) for n = 1, 2, SIZE_MAX from top level and handlers, stop discards.", Dq=7, Dt=9)


@check("C17")
def c17(prop, tier, seed):
    return core_check(prop, tier, seed, ["become", "tb"], ["become", "tb", "stash"],
                      "Focus: handler stack changed from outside and inside handlers; which handler receives each invocation.", Dq=7, Dt=9)


@check("C09")
def c09(prop, tier, seed):
    return core_check(prop, tier, seed, ["srca", "srcb", "srcbad", "btmo", "subos"], ["srca", "srcb", "srcbad", "btmo", "subos", "fdev", "tb"],
                      "Focus: per-kind keyed sets (descriptor, timer, signal, path, pid, threshold, subscription): EEXIST on a present key, removal of exactly the named key, per-kind and total counts through m_mod_src_len, survival across pause/resume, dropped at stop.", Dq=6, Dt=8)


@check("C03")
def c03(prop, tier, seed):
    return core_check(prop, tier, seed, ["fdev", "ps2q", "subos", "kev", "kevl", "tsk", "tskq", "rearm"], ["fdev", "ps2q", "subos", "kev", "kevl", "tsk", "tskq", "rearm", "ps3", "pub2"],
                      "Focus: events of descriptor / timer / pubsub / signal / path / pid / task sources reach their owner with the registration userdata only while RUNNING; one-shot removal; poll batches of several sources in every order; errno left behind by callbacks; loop ends only on quit / no running module. "
                      "Configurations marked .loop are replayed a second time in loop mode: the loop is driven by blocking m_ctx_loop() calls (top-level steps executed from inside the wrapped epoll_wait, the stopping dispatch being what m_ctx_loop does before returning the quit code) and must show the same deliveries, states and return code.",
                      Dq=5, Dt=7, budget_q=35000, loop_cfgs=["ps2q", "fdev", "life"], loop_cfgs_thorough=["tsk", "kev", "rearm", "subos"], sim_cfgs=["mix"])


@check("C20")
def c20(prop, tier, seed):
    return core_check(prop, tier, seed, ["fdev", "srca", "tick", "tickh", "memfd", "kev", "tsk"], ["fdev", "srca", "tick", "tickh", "memfd", "kev", "tsk", "life", "tb", "btmo"],
                      "Focus: descriptor ledger: library descriptors (poll handle, pipes, timer / signal / path-watch / pid / task-notification descriptors) all closed in clean states, user descriptors closed only through auto-close and exactly once.", Dq=5, Dt=7)


@check("C18")
def c18(prop, tier, seed):
    return core_check(prop, tier, seed, ["tb", "tbtmr", "tbb", "tbbt"], ["tb", "tbtmr", "tbb", "tbbt", "tbbte"],
                      "Focus: token bucket: every kind of rate-limited call with 0, 1, 2 tokens (EAGAIN and no effect without a token), refill ticks capped at the burst, rate 0 and stop remove the limit; token count compared after every step.", Dq=6, Dt=8)


@check("C04")
def c04(prop, tier, seed):
    return core_check(prop, tier, seed, ["mem", "memfd", "life", "pub2", "stash", "tsk", "tskq", "tb"],
                      ["mem", "memfd", "tsk", "tskq", "kev", "life", "ctx", "perm", "ps2q", "ps2", "pub2", "ps3", "bc2", "batch", "btmo", "stash", "stashb", "become", "fdev", "srca", "srcb", "subos", "tb", "tick"],
                      "C04 = memory and lifetime safety on every explored history: the union of the Core configurations replayed under ASan/UBSan "
                      "with the allocator ledger (nothing outstanding, nothing freed twice, in clean states), plus configurations in which the "
                      "program retains events beyond their invocation (and beyond the stop / deregistration of their module and the release of "
                      "the context) and extra references on module objects (zombies), releasing them in any order; retained events are re-read "
                      "after every step; tasks whose thread is still inside the user's function when their module is paused, stopped, deregistered "
                      "or the loop stops (the function returns only when the library waits for it, or afterwards if it does not wait)."
                      " Configurations marked .sim are too large to enumerate: TLC's simulation mode samples behaviours (all features at once: 3 modules "
                      "with hooks, priorities, batching, stash, become, token bucket, descriptor / timer / signal / task sources, tick, retained events), "
                      "the monitors are checked on every sampled state and every sampled behaviour is replayed.", Dq=5, Dt=6, budget_q=35000, sim_cfgs=["mix", "mixb", "mix4"], timeout_t=900, sim_rounds_t=8)


# ------------------------------------------------------------------------------------------
# C14 - contexts on different threads are independent; modules are thread-confined

def static_inventory(R):
    """Writable static-storage symbols of the library objects (no sanitizer) vs. the declaration in spec/SharedState.tla."""
    d = vplib.rundir("c14.statics")
    inc = []
    for i in vplib.LIB_INC:
        inc += ["-I", os.path.join(vplib.REPO, i)]
    found = set()
    for g in ("utils", "mem", "structs", "thpool", "core"):
        for src in vplib.LIB_GROUPS[g][0]:
            o = os.path.join(d, src.replace("Lib/", "").replace("/", "_") + ".o")
            rc, out, _ = vplib.sh(["clang", "-std=gnu11", "-O1", "-D_GNU_SOURCE", "-w"] + inc + ["-c", os.path.join(vplib.REPO, src), "-o", o], timeout=120)
            if rc != 0:
                raise Broken("compile for static inventory failed: " + out[-500:])
            rc, out, _ = vplib.sh(["nm", "--defined-only", o])
            for line in out.splitlines():
                f = line.split()
                if len(f) == 3 and f[1] in "bBdDsScC":
                    found.add((os.path.basename(o)[:-2], f[2]))
    decl = set(re.findall(r'sym \|-> "([^"]+)",\s*obj \|-> "([^"]+)"', open(os.path.join(vplib.SPEC, "SharedState.tla")).read()))
    decl = set((o, s) for (s, o) in decl)
    vplib.cleanup(d)
    R.extra["static_storage"] = {"found": sorted("%s:%s" % x for x in found), "declared": sorted("%s:%s" % x for x in decl)}
    for obj, sym in sorted(found - decl):
        rp = vplib.replay_path(R.prop, "static." + sym)
        open(rp, "w").write("writable object with static storage duration not declared in spec/SharedState.tla: %s in %s\n"
                            "(shared by every context of the process; declare its sharing discipline or make it per-context)\n" % (sym, obj))
        R.mismatch("c14-undeclared-static:" + sym, rp, "undeclared shared mutable object %s (%s)" % (sym, obj))
    return len(found)


def tsan_threads(R, name, threads, walks, seed):
    """Several threads, each with its own context, replay programs of one configuration concurrently under TSan."""
    exe = vplib.build("drv_core_tsan", ["utils", "mem", "structs", "thpool", "core"], ["drv_core.c"], san="tsan", extra_ldflags=CORE_WRAPS)
    mods, env = CORE_CFGS[name]
    mp = int(env.get("VP_MAXPAY", "1"))
    r = e1_dump(R, "CoreMC.tla", "Core_mc_%s.cfg" % name, name + ".tsan", workers=4)
    if r is None:
        return
    d, (states, edges, inits) = r
    table = os.path.join(d, "graph.tab")
    vplib.write_table(table, states, edges, inits, core_canon(mods, mp, int(env.get("VP_NKEYS", "1"))))
    rdir = os.path.join(vplib.VERIF, "replays")
    e = {"VP_MODS": ",".join(mods), "VP_MAXPAY": str(mp), "VP_THREADS": str(threads), "TSAN_OPTIONS": "halt_on_error=0 exitcode=0 report_signal_unsafe=0"}
    e.update(env)
    rc, out, wall = vplib.sh([str(x) for x in [exe, table, rdir, R.prop + "." + name + ".tsan", 0, 0, walks, 40, seed]], env=e, timeout=1500)
    vplib.cleanup(d)
    races = re.findall(r"WARNING: ThreadSanitizer: ([^\n]*)\n(?:.*\n)*?SUMMARY: ThreadSanitizer: ([^\n]*)", out)
    lib_races = [x for x in re.findall(r"SUMMARY: ThreadSanitizer: ([^\n]*)", out)]
    seen = set()
    for summ in lib_races:
        key = re.sub(r"0x[0-9a-f]+", "", summ)
        if key in seen:
            continue
        seen.add(key)
        rp = vplib.replay_path(R.prop, name + ".tsan." + str(len(seen)))
        open(rp, "w").write(out[-20000:])
        R.mismatch("c14-tsan:" + re.sub(r"[^A-Za-z0-9_.]+", "-", key)[:80], rp, "ThreadSanitizer: " + summ[:200])
    stats = None
    for line in out.splitlines():
        if line.startswith("MISMATCH "):
            m = re.match(r"MISMATCH sig=(\S+) replay=(\S+) :: (.*)$", line)
            if m:
                R.mismatch(name + ".threads:" + m.group(1), m.group(2), m.group(3)[:300])
        elif line.startswith("STATS "):
            stats = json.loads(line[6:])
    if stats is None and not lib_races and "MISMATCH" not in out:
        raise Broken("threaded replay died (%s) rc=%s:\n%s" % (name, rc, out[-2000:]))
    if stats:
        with R.lock:
            R.traces += stats["programs"]
            R.evaluations += stats["steps"]
            R.distinct_nontrivial += stats["programs"]
            R.extra.setdefault("threaded_runs", []).append(dict(stats, config=name, wall_s=round(wall, 1)))


@check("C14")
def c14(prop, tier, seed):
    R = Result(prop, tier, seed)
    quick = tier == "quick"
    # (c) structural: shared static storage is exactly what SharedState.tla declares
    res = vplib.tlc("SharedState.tla", "SharedState.cfg", workers=1, timeout=120)
    vplib.tlc_require_ok(res, "SharedState")
    R.add_tlc(res, "SharedState")
    static_inventory(R)
    # (a) confinement: every module call from a foreign thread is refused with a permission error and has no effect
    exe = build_core()
    mods, env = CORE_CFGS["foreign"]
    core_run(R, exe, "Core_mc_foreign.cfg", mods, env, 4 if quick else 5, 40000 if quick else 2000000, 1000 if quick else 50000, 30, seed)
    # (b) independence: concurrent contexts each conform to the single-context spec, no unsynchronised access (TSan)
    for name in (["ps2q"] if quick else ["ps2q", "life", "fdev", "pub2"]):
        tsan_threads(R, name, 4 if quick else 8, 2000 if quick else 40000, seed)
    # ... and the library's own threads: task sources (pool threads run the user's function, store its result in the source and
    # notify the loop) replayed by one thread under TSan: whatever a task thread shares with the loop must be synchronised
    tsan_threads(R, "tsk", 1, 3000 if quick else 60000, seed)
    R.exhaustive = False
    R.rule = ("(a) programs over Core_mc_foreign: lifecycle calls from the owner interleaved with every module operation attempted from a foreign "
              "thread (with / without a context of its own) on modules in every state: permission error, projection unchanged; (b) %s threads, "
              "each with its own context, replay random programs of the pub/sub configuration(s) concurrently, each thread comparing its own "
              "observations with the single-context spec after every step, under ThreadSanitizer; (c) inventory of writable static storage in "
              "the library objects against spec/SharedState.tla; (d) the task configuration (pool threads of the library running gated user functions) "
              "replayed by one thread under ThreadSanitizer. non-trivial = every program" % (4 if quick else 8))
    R.assumptions = ["TSan observes the schedules the run happened to take", "task sources are replayed by a single replaying thread (one context) next to the library's pool threads"]
    return R.finish()
