#!/bin/bash
# seed_run.sh <patch.diff> <PROP> [tier] : apply a seeded change to /repo, run the check, undo it straight afterwards.
set -u
patch=$(readlink -f "$1"); prop=$2; tier=${3:-quick}
cd /verif
[ -z "$(git -C /repo status --porcelain --untracked-files=no)" ] || { echo "/repo not clean"; exit 2; }
git -C /repo apply "$patch" || { echo "PATCH DOES NOT APPLY"; exit 2; }
trap 'git -C /repo checkout -- . ' EXIT
mkdir -p /var/tmp/vp-seedev; cp evidence/$prop.json /var/tmp/vp-seedev/$prop.json 2>/dev/null
timeout 3000 tools/check $prop $tier > /tmp/seed_check.$prop.log 2>&1; rc=$?
cp /var/tmp/vp-seedev/$prop.json evidence/$prop.json 2>/dev/null   # evidence must come from the unchanged tree
grep -E "^VIOLATION|^KNOWN|BROKEN" /tmp/seed_check.$prop.log | head -5
echo "check_exit=$rc"
