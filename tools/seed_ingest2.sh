#!/bin/bash
# seed_ingest2.sh <PROP> <k> [check-prop] : like seed_ingest.sh but safe to run several at once: the change is applied to a scratch
# copy of /repo's working tree (VP_REPO) instead of /repo itself, and the evidence of that run goes to a scratch directory.
V=$(cd "$(dirname "$0")/.." && pwd)
prop=$1; k=$2; chk=${3:-$prop}; src=/tmp/seed-out/$prop/$k; dst=/verif/seeded/$prop-$k
conf=$($V/tools/seed_confirm.sh $src 2>&1 | tail -2)
echo "$conf"
echo "$conf" | grep -q "^CONFIRMED" || { echo "skip: not confirmed"; exit 1; }
snap=/var/tmp/vp-seedrepo.$$; rm -rf $snap; mkdir -p $snap $snap.ev
rsync -a /repo/Lib $snap/
(cd $snap && patch -p1 -s < $src/patch.diff) || { echo "PATCH DOES NOT APPLY"; rm -rf $snap $snap.ev; exit 2; }
log=/tmp/seed_check.$prop-$k.log
(cd $V && VP_REPO=$snap VP_EVID=$snap.ev timeout 3000 tools/check $chk quick > $log 2>&1); rc=$?
rm -rf $snap $snap.ev
grep -E "^VIOLATION|^KNOWN|BROKEN" $log | head -5 | cut -c1-220
echo "check_exit=$rc"
det=$(grep -c "^VIOLATION" $log)
mkdir -p $dst && cp $src/patch.diff $src/demo.c $src/run_demo.sh $src/notes.txt $dst/ 2>/dev/null
python3 - "$prop" "$k" "$chk" "$det" "$dst" "$log" <<'PY'
import json,sys
prop,k,chk,det,dst,log=sys.argv[1:]
notes=open(dst+"/notes.txt").read()
viol=[l for l in open(log).read().splitlines() if l.startswith("VIOLATION")][:3]
json.dump({"breaks_property":prop,"needs_to_manifest":notes[:1500],
  "confirmed":"tools/seed_confirm.sh (scratch worktree): existing tests pass with the change (plain+valgrind), demo fails with it, passes without it",
  "ran":"tools/seed_ingest2.sh: patch applied to a scratch copy of /repo's working tree, VP_REPO=<copy> tools/check %s quick"%chk,
  "detected_by_check":int(det)>0,"violation_lines":viol}, open(dst+"/meta.json","w"), indent=1)
PY
echo "detected=$det"
