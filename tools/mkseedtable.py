#!/usr/bin/env python3
# Regenerates the seeded-changes table in DESIGN.md from seeded/*/meta.json
import json, glob, os, re
V = os.path.dirname(os.path.dirname(os.path.abspath(__file__)))
rows = []
for d in sorted(glob.glob(os.path.join(V, "seeded", "*"))):
    mp = os.path.join(d, "meta.json")
    if not os.path.exists(mp):
        continue
    m = json.load(open(mp))
    name = os.path.basename(d)
    notes = open(os.path.join(d, "notes.txt")).read() if os.path.exists(os.path.join(d, "notes.txt")) else ""
    files = set(re.findall(r"^\+\+\+ b/(\S+)", open(os.path.join(d, "patch.diff")).read(), re.M))
    what = m.get("summary") or ""
    if not what:
        # first meaningful line of the notes
        for line in notes.splitlines():
            line = line.strip(" -*#")
            if len(line) > 25:
                what = line
                break
    sig = ""
    if m.get("violation_lines"):
        mm = re.search(r"\((\S+?):(\S+)", m["violation_lines"][0])
        if mm:
            sig = "%s: %s" % (mm.group(1), mm.group(2))
    rows.append("| %s | %s | %s | %s | %s |" % (name, ", ".join(sorted(files)), what[:150].replace("|", "/"), "yes" if m.get("detected_by_check") else "**no**", sig[:90]))
tab = "| seeded change | files | what it does / needs | caught by `tools/check %s quick` | first mismatch (config: signature) |\n|---|---|---|---|---|\n" % "<prop>" + "\n".join(rows)
tab += "\n\n%d seeded changes, %d caught." % (len(rows), sum(1 for r in rows if "| yes |" in r))
p = os.path.join(V, "DESIGN.md")
s = open(p).read()
s = re.sub(r"<!-- SEEDTABLE-BEGIN -->.*<!-- SEEDTABLE-END -->", "<!-- SEEDTABLE-BEGIN -->\n" + tab + "\n<!-- SEEDTABLE-END -->", s, flags=re.S)
open(p, "w").write(s)
print(len(rows), "rows")
